#!/venv/bin/python
"""Generate MANIFEST.json from the table below (one place to edit)."""
import json, os
HERE = os.path.dirname(os.path.dirname(os.path.abspath(__file__)))
props = [json.loads(l) for l in open(os.path.join(HERE, 'properties.jsonl'))]
from manifest_table import CHECKS, ENGINES, NOT_APPLICABLE, NOTES
checks = []
for pid, c in CHECKS.items():
    checks.append({
        'property_id': pid,
        'quick_cmd': f'./check {pid} --tier quick',
        'thorough_cmd': f'./check {pid} --tier thorough',
        'evidence_file': f'/verif/evidence/{pid}.json',
        'replay_cmd_template': f'./check {pid} --replay {{path}}',
        'engine': c['engine'],
        'level_claimed': {'category': 'model_checking', 'text': c['text'], 'design_ref': c['design_ref']},
        'level_note': c['note'],
        'technique': c['technique'],
    })
claimed = set(CHECKS)
na = [{'property_id': p['id'], 'reason': NOT_APPLICABLE.get(p['id'], 'check not built yet in this session (planned, see DESIGN.md section 4)')}
      for p in props if p['id'] not in claimed]
m = {
    'version': 1,
    'setup_cmd': 'true',
    'hooks': {
        'guard': 'LAZY_DATASET_VERIF',
        'enable': 'no source hooks: every seam is a module global or public parameter rebound from outside by the harness (./check exports LAZY_DATASET_VERIF=1 for uniformity)',
        'baseline_off_cmd': 'cd /repo && /venv/bin/python -m pytest -ra -q -p no:cacheprovider --timeout=900 --continue-on-collection-errors',
        'source_commits': [],
        'add_only': True,
    },
    'engines': ENGINES,
    'checks': checks,
    'notes': NOTES,
    'not_applicable': na,
}
json.dump(m, open(os.path.join(HERE, 'MANIFEST.json'), 'w'), indent=1)
print('wrote MANIFEST.json with', len(checks), 'checks')
