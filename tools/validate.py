#!/opt/veriftools/pyvenv/bin/python
"""Validate MANIFEST.json and every evidence file against the harness schemas."""
import json, sys, glob, jsonschema
ok = True
m = json.load(open('/verif/MANIFEST.json'))
try:
    jsonschema.validate(m, json.load(open('/root/.vp/MANIFEST.schema.json')))
    print('MANIFEST ok:', len(m['checks']), 'checks;', len(m.get('not_applicable', [])), 'not applicable')
except jsonschema.ValidationError as e:
    ok = False; print('MANIFEST INVALID', e.message)
es = json.load(open('/root/.vp/EVIDENCE.schema.json'))
for f in sorted(glob.glob('/verif/evidence/*.json')):
    try:
        ev = json.load(open(f)); jsonschema.validate(ev, es)
        c = ev['coverage']
        print(f, 'ok', ev['tier'], 'states', c.get('states'), 'transitions', c.get('transitions'), 'samples', len(c.get('samples', [])))
    except Exception as e:
        ok = False; print(f, 'INVALID', getattr(e, 'message', e))
props = [json.loads(l)['id'] for l in open('/verif/properties.jsonl')]
claimed = {c['property_id'] for c in m['checks']}
na = {n['property_id'] for n in m.get('not_applicable', [])}
for p in props:
    if (p in claimed) == (p in na):
        ok = False; print('property', p, 'must be claimed or not_applicable, exactly one')
sys.exit(0 if ok else 1)
