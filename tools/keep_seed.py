#!/venv/bin/python
"""Confirm a sub-agent's seeded change and keep it under /verif/seeded/<name>/ (patch.diff, demo.py, meta.json).
usage: tools/keep_seed.py <name> <property> <src dir> <x> <check ids to try...>"""
import json, os, re, shutil, subprocess, sys
HERE = os.path.dirname(os.path.dirname(os.path.abspath(__file__)))
name, prop, src, x = sys.argv[1:5]
checks = sys.argv[5:]
patch, demo, notes = (os.path.join(src, f'{x}.{e}') for e in ('patch.diff', 'demo.py', 'notes.md'))
r = subprocess.run([os.path.join(HERE, 'tools', 'seedtest.py'), '--tests', '--demo', demo, patch] + checks,
                   capture_output=True, text=True)
out = r.stdout
demo_clean = re.search(r'demo on unchanged tree: exit (\d+)', out)
demo_changed = re.search(r'demo with the change:\s+(exit (\d+)|TIMEOUT)', out)
tests_pass = 'PASS' in (re.search(r'stable tests with the change:.*', out) or [''])[0]
det = {m.group(1): m.group(2) for m in re.finditer(r'^(C\d+): (\S+)', out, re.M)}
keys = {m.group(1): m.group(3).split(' key=')[:4] for m in re.finditer(r'^(C\d+): (\S+) (.*)$', out, re.M)}
ok = demo_clean and demo_clean.group(1) == '0' and demo_changed and demo_changed.group(1) != 'exit 0' and tests_pass
meta = {
    'name': name, 'property': prop,
    'needs_to_manifest': open(notes).read()[:1500] if os.path.exists(notes) else '',
    'confirmed': {'demo_exit_unchanged': demo_clean.group(1) if demo_clean else None,
                  'demo_with_change': demo_changed.group(1) if demo_changed else None,
                  'stable_tests_pass_with_change': tests_pass},
    'ran': f'tools/seedtest.py --tests --demo demo.py patch.diff {" ".join(checks)}  (scratch copy of /repo under /var/tmp, VERIF_REPO)',
    'detected_by': {c: v for c, v in det.items()},
    'finding_keys': keys,
}
print(name, 'KEEP' if ok else 'REJECT', json.dumps(meta['confirmed']), det)
if ok:
    d = os.path.join(HERE, 'seeded', name)
    os.makedirs(d, exist_ok=True)
    shutil.copy(patch, os.path.join(d, 'patch.diff'))
    shutil.copy(demo, os.path.join(d, 'demo.py'))
    json.dump(meta, open(os.path.join(d, 'meta.json'), 'w'), indent=1)
