#!/bin/bash
# Run every quick check against every behaviour-preserving refactoring under /verif/preserving (each applied to a
# scratch copy of /repo); every check must stay silent.  usage: [CHECKS="C04 C09"] tools/falsealarm.sh [jobs]
cd "$(dirname "$0")/.."
J=${1:-3}
export CHECKS=${CHECKS:-C01 C02 C03 C04 C05 C06 C07 C08 C09 C10 C11 C12 C13 C14 C15 C16 C17 C18 C19 C20}
run() { out=$(tools/seedtest.py "$1/patch.diff" $CHECKS 2>&1 | grep -E "^C[0-9]+: (DETECTED|HARNESS)|PATCH FAILED" | tr '\n' ' '); echo "$(basename $1): ${out:-all silent}"; }
export -f run
ls -d preserving/*/ | xargs -P "$J" -I{} bash -c 'run {}'
