E1_NOTE = ('trusted base: the reference interpreter vf/ref.py (boring list code) and the observation code vf/observe.py; '
           'bounded by program depth and the stated alphabet; prefetch stages inside these programs run under the OS schedule')
E2_NOTE = ('trusted base: the scheduler and the queue/threading/executor models in vf/sched.py (process pools are in-process models with a real pickle/dill boundary), '
           'the visibility analysis of racy closure cells; granularity = visible operations (mode P/B) or source lines (mode L); sequential consistency')
CHECKS = {
    'C01': dict(engine='E1 seqmc', design_ref='DESIGN.md 3.2, 4/C01',
                technique='explicit-state enumeration of all combinator programs to a depth bound, each executed on the real library and compared with a reference interpreter',
                text='every program over a 77-op alphabet x 12 sources to depth 2 (quick) / 3 (thorough), plus a 22-op core alphabet one level deeper, is built on the real library; iteration (twice), copy(), copy(freeze=True) and re-iteration of the parent are compared with the eager reference in every state',
                note=E1_NOTE),
    'C02': dict(engine='E1 seqmc', design_ref='DESIGN.md 3.2, 4/C02',
                technique='explicit-state enumeration of all combinator programs to a depth bound; in every state len() and ds[i] for ALL i in [-len-2, len+2) as int and numpy int against the reference',
                text='same program space as C01; the invariant is len == number of iterated examples, ds[i] == i-th example for both signs, IndexError outside the range',
                note=E1_NOTE),
    'C03': dict(engine='E1 seqmc', design_ref='DESIGN.md 3.2, 4/C03',
                technique='explicit-state enumeration of all combinator programs to a depth bound; in every state keys(), items() (twice), ds[key] for all present and a set of absent keys against the reference',
                text='same program space as C01; the invariant is key/example alignment in keys(), items() and key lookup, and a lookup error for every absent key (including keys removed by a slice/filter below)',
                note=E1_NOTE),
    'C04': dict(engine='E2 schedmc', design_ref='DESIGN.md 3.3, 4/C04',
                technique='stateless model checking of the real parallel_utils code under a controlled scheduler: all thread schedules of visible operations (sleep-set reduction), plus all line-level schedules up to a preemption bound',
                text='for every configuration (prefetch / parallel map x n x workers x buffer x 5 backends x values/items x second iteration after a full or an aborted one) every schedule is executed and the delivered sequence is compared with the sequential pipeline; len() compared statically',
                note=E2_NOTE),
    'C05': dict(engine='E2 schedmc', design_ref='DESIGN.md 3.3, 4/C05',
                technique='stateless model checking under a controlled scheduler: all schedules x every consumer stop point (close / drop after k, exhaustion, error at every position); deadlock, leaked-thread and event-order oracles on every execution',
                text='no deadlock, no live thread at the end, no pull/start/end event after control returned, nothing pending when the executor shuts down after an early stop; buffer sizes from 1',
                note=E2_NOTE),
    'C06': dict(engine='E2 schedmc', design_ref='DESIGN.md 3.3, 4/C06',
                technique='stateless model checking under a controlled scheduler: all schedules x all subsets of failing positions x exception types x catch settings, compared with the sequential semantics',
                text='the consumer receives exactly the reference prefix followed by the injected exception; with catch_filter_exception exactly the selected failures are dropped; source errors and function errors, single-thread and pool paths, thread and process-pool models',
                note=E2_NOTE),
    'C07': dict(engine='E2 schedmc', design_ref='DESIGN.md 3.3, 4/C07',
                technique='stateless model checking under a controlled scheduler with pull/start/deliver log events as ordered scheduling points; the read-ahead invariant is evaluated at every prefix of every execution',
                text='pulled-delivered <= buffer_size+2 and started-delivered <= buffer_size at every moment of every explored schedule (all schedules for the small configurations, all schedules within a preemption bound for n = b+3, b+4 with 2 workers); maxima must not grow with n',
                note=E2_NOTE),
}
ENGINES = [
    {'name': 'E2 schedmc', 'path': 'vf/schedmc.py', 'serves_properties': ['C04', 'C05', 'C06', 'C07'],
     'kind_free_text': 'stateless model checker for the real lazy_dataset.parallel_utils code: baton scheduler over real threads, modelled queue/threading/executors injected into the module namespace, sys.monitoring LINE events on racy closure cells; DFS over choice lists with sleep sets or a preemption bound; every failing schedule is replayed twice'},
    {'name': 'E1 seqmc', 'path': 'vf/seqmc.py', 'serves_properties': ['C01', 'C02', 'C03'],
     'kind_free_text': 'explicit-state search over pipeline programs: complete tree to a depth bound on real Dataset objects, invariant = agreement of the full observation with a pure-Python reference interpreter (vf/ref.py)'},
]
NOT_APPLICABLE = {}
NOTES = 'All checks: ./check <id> --tier quick|thorough; exit 0 held / 1 VIOLATION / 2 harness error. Known findings: known_findings.json.'
