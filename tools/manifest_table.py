E1_NOTE = ('trusted base: the reference interpreter vf/ref.py (boring list code) and the observation code vf/observe.py; '
           'bounded by program depth and the stated alphabet; prefetch stages inside these programs run under the OS schedule')
CHECKS = {
    'C01': dict(engine='E1 seqmc', design_ref='DESIGN.md 3.2, 4/C01',
                technique='explicit-state enumeration of all combinator programs to a depth bound, each executed on the real library and compared with a reference interpreter',
                text='every program over a 77-op alphabet x 12 sources to depth 2 (quick) / 3 (thorough), plus a 22-op core alphabet one level deeper, is built on the real library; iteration (twice), copy(), copy(freeze=True) and re-iteration of the parent are compared with the eager reference in every state',
                note=E1_NOTE),
    'C02': dict(engine='E1 seqmc', design_ref='DESIGN.md 3.2, 4/C02',
                technique='explicit-state enumeration of all combinator programs to a depth bound; in every state len() and ds[i] for ALL i in [-len-2, len+2) as int and numpy int against the reference',
                text='same program space as C01; the invariant is len == number of iterated examples, ds[i] == i-th example for both signs, IndexError outside the range',
                note=E1_NOTE),
    'C03': dict(engine='E1 seqmc', design_ref='DESIGN.md 3.2, 4/C03',
                technique='explicit-state enumeration of all combinator programs to a depth bound; in every state keys(), items() (twice), ds[key] for all present and a set of absent keys against the reference',
                text='same program space as C01; the invariant is key/example alignment in keys(), items() and key lookup, and a lookup error for every absent key (including keys removed by a slice/filter below)',
                note=E1_NOTE),
}
ENGINES = [
    {'name': 'E1 seqmc', 'path': 'vf/seqmc.py', 'serves_properties': ['C01', 'C02', 'C03'],
     'kind_free_text': 'explicit-state search over pipeline programs: complete tree to a depth bound on real Dataset objects, invariant = agreement of the full observation with a pure-Python reference interpreter (vf/ref.py)'},
]
NOT_APPLICABLE = {}
NOTES = 'All checks: ./check <id> --tier quick|thorough; exit 0 held / 1 VIOLATION / 2 harness error. Known findings: known_findings.json.'
