#!/venv/bin/python
"""Mutation self-test: apply realistic property-breaking changes to a scratch copy of the repository
(outside /repo and /verif, removed afterwards) and assert that the property's check reports each one.

usage: tools/selftest.py [--tests] [--tier quick] [mutation ids or property ids ...]
  --tests  additionally run the pinned stable test suite on every mutant (it must still pass)
"""
import argparse
import concurrent.futures
import json
import os
import shutil
import subprocess
import sys
import tempfile

HERE = os.path.dirname(os.path.dirname(os.path.abspath(__file__)))
sys.path.insert(0, os.path.join(HERE, 'selftest'))
from mutations import MUTATIONS  # noqa: E402


def make_mutant(m, root):
    d = os.path.join(root, m['id'])
    shutil.copytree('/repo', d, ignore=shutil.ignore_patterns('.git', 'htmlcov', '__pycache__', '*.pyc',
                                                               'coverage.xml', '.pytest_cache'))
    for rel, old, new in m['edits']:
        p = os.path.join(d, rel)
        s = open(p).read()
        if s.count(old) != 1:
            raise SystemExit(f'{m["id"]}: anchor occurs {s.count(old)} times in {rel}')
        open(p, 'w').write(s.replace(old, new))
    return d


def run_check(prop, repo, tier):
    env = dict(os.environ, VERIF_REPO=repo)
    r = subprocess.run([os.path.join(HERE, 'check'), prop, '--tier', tier, '--no-evidence'], env=env,
                       capture_output=True, text=True)
    viol = [l for l in r.stdout.splitlines() if l.startswith('VIOLATION')]
    keys = [l.strip() for l in r.stdout.splitlines() if l.strip().startswith('key=')]
    return r.returncode, viol, keys, r.stderr[-400:]


def run_tests(repo):
    r = subprocess.run(['/venv/bin/python', os.path.join(HERE, 'tools', 'baseline.py'), repo],
                       capture_output=True, text=True)
    return r.returncode == 0, r.stdout.strip().splitlines()[-3:]


def main():
    ap = argparse.ArgumentParser()
    ap.add_argument('--tests', action='store_true')
    ap.add_argument('--tier', default='quick')
    ap.add_argument('--jobs', type=int, default=4)
    ap.add_argument('ids', nargs='*')
    a = ap.parse_args()
    sel = [m for m in MUTATIONS if not a.ids or m['id'] in a.ids or any(p in a.ids for p in m['props'])]
    root = tempfile.mkdtemp(prefix='verif_mut_', dir='/var/tmp')
    ok = True
    try:
        def one(m):
            d = make_mutant(m, root)
            out = {'id': m['id'], 'checks': {}}
            for prop in m['props']:
                rc, viol, keys, err = run_check(prop, d, a.tier)
                out['checks'][prop] = (rc, keys[:3], err if rc == 2 else '')
            if a.tests:
                out['tests_pass'] = run_tests(d)
            shutil.rmtree(d, ignore_errors=True)
            return out
        with concurrent.futures.ThreadPoolExecutor(a.jobs) as ex:
            for out in ex.map(one, sel):
                det = {p: rc == 1 for p, (rc, _, _) in out['checks'].items()}
                status = 'DETECTED' if all(det.values()) else 'MISSED'
                ok = ok and all(det.values())
                line = f'{status:9s} {out["id"]:40s} ' + ' '.join(
                    f'{p}:{"viol" if rc == 1 else ("HARNESS-ERR" if rc == 2 else "silent")}'
                    for p, (rc, _, _) in out['checks'].items())
                if a.tests:
                    line += f'  tests_pass={out["tests_pass"][0]}'
                    if not out['tests_pass'][0]:
                        line += ' ' + ' | '.join(out['tests_pass'][1])
                print(line, flush=True)
                for p, (rc, keys, err) in out['checks'].items():
                    for k in keys:
                        print('            ', p, k)
                    if err:
                        print('            ', p, err.replace('\n', ' | ')[-300:])
    finally:
        shutil.rmtree(root, ignore_errors=True)
    sys.exit(0 if ok else 1)


main()
