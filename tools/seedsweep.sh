#!/bin/bash
# Regression over every kept seeded change: each must be detected by the quick check of its own property.
# usage: [SEEDS="C1[2-4]-[a-d]*"] tools/seedsweep.sh [jobs]
cd "$(dirname "$0")/.."
J=${1:-3}
run() { d=$1; id=$(basename $d | cut -c1-3); out=$(tools/seedtest.py "$d/patch.diff" $id 2>&1 | grep -E "^C[0-9]+:|PATCH FAILED" | cut -c1-160 | tr '\n' ' '); echo "$(basename $d): $out"; }
export -f run
ls -d seeded/${SEEDS:-*}/ | xargs -P "$J" -I{} bash -c 'run {}'
