#!/venv/bin/python
"""Run the pinned test command on a repo tree (default /repo) with the verification guard OFF and
compare against the stable_pass list of /root/.vp/BASELINE.json.  Exit 0 iff every stable test passes."""
import json, os, subprocess, sys, tempfile, xml.etree.ElementTree as ET

def main():
    repo = sys.argv[1] if len(sys.argv) > 1 else '/repo'
    base = json.load(open('/root/.vp/BASELINE.json'))
    out = tempfile.mktemp(suffix='.junit.xml', dir='/var/tmp')
    env = dict(os.environ)
    env.pop('LAZY_DATASET_VERIF', None)
    cmd = ['/venv/bin/python', '-m', 'pytest', '-ra', '-q', '-p', 'no:cacheprovider', '--timeout=900',
           '--continue-on-collection-errors', '--no-cov', f'--junitxml={out}'] + sys.argv[2:]
    subprocess.run(cmd, cwd=repo, env=env, stdout=subprocess.DEVNULL, stderr=subprocess.DEVNULL)
    passed = set()
    for tc in ET.parse(out).getroot().iter('testcase'):
        if not any(ch.tag in ('failure', 'error', 'skipped') for ch in tc):
            passed.add(f"{tc.get('classname')}::{tc.get('name')}")
    os.unlink(out)
    missing = [t for t in base['stable_pass'] if t not in passed]
    print(f'stable={len(base["stable_pass"])} passed_of_stable={len(base["stable_pass"]) - len(missing)}')
    for m in missing:
        print('MISSING', m)
    sys.exit(1 if missing else 0)

main()
