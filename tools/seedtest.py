#!/venv/bin/python
"""Evaluate one seeded change: apply a patch to a scratch copy of /repo (outside /repo and /verif, removed
afterwards), optionally confirm that the pinned stable tests still pass and that the demonstration fails with
and passes without the change, then run the given checks against the copy (VERIF_REPO) and report which detect it.

usage: tools/seedtest.py [--tests] [--demo demo.py] [--tier quick] patch.diff C01 [C02 ...]
"""
import argparse
import os
import shutil
import subprocess
import sys
import tempfile

HERE = os.path.dirname(os.path.dirname(os.path.abspath(__file__)))
ENV = dict(os.environ, OMP_NUM_THREADS='1', MKL_NUM_THREADS='1')


def main():
    ap = argparse.ArgumentParser()
    ap.add_argument('--tests', action='store_true')
    ap.add_argument('--demo')
    ap.add_argument('--tier', default='quick')
    ap.add_argument('patch')
    ap.add_argument('props', nargs='+')
    a = ap.parse_args()
    root = tempfile.mkdtemp(prefix='verif_seed_', dir='/var/tmp')
    d = os.path.join(root, 'repo')
    try:
        shutil.copytree('/repo', d, ignore=shutil.ignore_patterns('.git', 'htmlcov', '__pycache__', '*.pyc',
                                                                   'coverage.xml', '.pytest_cache'))
        if a.demo:
            r = subprocess.run(['/venv/bin/python', '-B', a.demo], env=dict(ENV, PYTHONPATH=d), capture_output=True,
                               text=True, timeout=600, cwd=root)
            print(f'demo on unchanged tree: exit {r.returncode}')
        r = subprocess.run(['patch', '-p1', '-s', '-i', os.path.abspath(a.patch)], cwd=d, capture_output=True, text=True)
        if r.returncode != 0:
            print('PATCH FAILED', r.stdout, r.stderr)
            sys.exit(2)
        if a.demo:
            try:
                r = subprocess.run(['/venv/bin/python', '-B', a.demo], env=dict(ENV, PYTHONPATH=d), capture_output=True,
                                   text=True, timeout=600, cwd=root)
                print(f'demo with the change:   exit {r.returncode}  {(r.stdout + r.stderr).strip().splitlines()[-1:] }')
            except subprocess.TimeoutExpired:
                print('demo with the change:   TIMEOUT (hang)')
        if a.tests:
            r = subprocess.run(['/venv/bin/python', os.path.join(HERE, 'tools', 'baseline.py'), d], capture_output=True,
                               text=True)
            print('stable tests with the change:', r.stdout.strip().splitlines()[-1:] if r.stdout else r.stderr[-200:],
                  'PASS' if r.returncode == 0 else 'FAIL')
        for prop in a.props:
            r = subprocess.run([os.path.join(HERE, 'check'), prop, '--tier', a.tier, '--no-evidence'],
                               env=dict(os.environ, VERIF_REPO=d), capture_output=True, text=True)
            keys = [ln.strip() for ln in r.stdout.splitlines() if ln.strip().startswith('key=')]
            status = {0: 'silent', 1: 'DETECTED', 2: 'HARNESS-ERROR'}.get(r.returncode, str(r.returncode))
            print(f'{prop}: {status} ' + ' '.join(keys[:4]))
            if r.returncode == 2:
                print('   ', r.stderr.strip()[-600:])
    finally:
        shutil.rmtree(root, ignore_errors=True)


main()
