"""Exhaustive enumeration of environment answers: a body is run repeatedly with a `Chooser`; every call
`chooser.choose(k)` is a choice point with k alternatives; depth-first search over choice lists visits
every combination of answers.  `ChoiceRng` turns a Chooser into the random source the library asks
(`shuffle`, `choice`, `permutation`), so "for every random state" is decided exhaustively for small sizes."""
import numpy as np

from vf import common


class Chooser:
    def __init__(self, prefix=()):
        self.prefix = list(prefix)
        self.taken = []         # (arity, choice)

    def choose(self, k):
        if k <= 1:
            return 0
        i = len(self.taken)
        if i < len(self.prefix):
            c = self.prefix[i]
            if c >= k:
                raise common.HarnessError(f'replay divergence: choice {c} of {k} at point {i}')
        else:
            c = 0
        self.taken.append((k, c))
        return c


class ChoiceRng:
    """Stands in for np.random / RandomState / Generator where the library only needs these calls."""

    def __init__(self, chooser):
        self.chooser = chooser

    def shuffle(self, x):
        n = len(x)
        for i in range(n - 1):
            j = i + self.chooser.choose(n - i)
            if j != i:
                tmp = x[i].copy() if isinstance(x, np.ndarray) and x.ndim > 1 else x[i]
                x[i] = x[j]
                x[j] = tmp

    def permutation(self, n):
        a = np.arange(n) if isinstance(n, (int, np.integer)) else np.array(n)
        self.shuffle(a)
        return a

    def choice(self, a, size=None, replace=True, p=None):
        n = int(a) if isinstance(a, (int, np.integer)) else len(a)
        if size is None:
            i = self.chooser.choose(n)
            return i if isinstance(a, (int, np.integer)) else a[i]
        if replace:
            idx = [self.chooser.choose(n) for _ in range(size)]
        else:
            pool = list(range(n))
            idx = [pool.pop(self.chooser.choose(len(pool))) for _ in range(size)]
        idx = np.array(idx, dtype=int)
        return idx if isinstance(a, (int, np.integer)) else np.asarray(a)[idx]

    def randint(self, low, high=None, size=None, dtype=int, endpoint=False):
        if high is None:
            low, high = 0, low
        if endpoint:
            high = high + 1
        if size is None:
            return low + self.chooser.choose(high - low)
        shape = (size,) if isinstance(size, (int, np.integer)) else tuple(size)
        if len(shape) == 1:
            # a block of draws: an answer becomes a choice point when the library looks at it, so a block that is drawn
            # ahead but consumed only partly costs what was consumed
            return LazyDraws(self.chooser, low, high, shape[0])
        flat = [low + self.chooser.choose(high - low) for _ in range(int(np.prod(shape)))]
        return np.array(flat, dtype=int).reshape(shape)

    integers = randint


class LazyDraws:
    """A one-dimensional block of integer draws whose elements are decided on first access."""

    def __init__(self, chooser, low, high, n):
        self.chooser, self.low, self.high, self.n = chooser, low, high, n
        self.vals = {}

    def __len__(self):
        return self.n

    def __getitem__(self, i):
        if isinstance(i, slice):
            return [self[j] for j in range(*i.indices(self.n))]
        i = int(i)
        if i < 0:
            i += self.n
        if not 0 <= i < self.n:
            raise IndexError(i)
        if i not in self.vals:
            self.vals[i] = self.low + self.chooser.choose(self.high - self.low)
        return self.vals[i]

    def __iter__(self):
        for i in range(self.n):
            yield self[i]

    def tolist(self):
        return self

    def __array__(self, dtype=None, copy=None):
        return np.array([self[i] for i in range(self.n)], dtype=dtype or int)


def explore(body, cap=None):
    """body(chooser) -> result.  Yields (choices, result) for every complete choice list."""
    stack = [[]]
    n = 0
    while stack:
        prefix = stack.pop()
        ch = Chooser(prefix)
        result = body(ch)
        n += 1
        yield [c for _, c in ch.taken], result
        for i in range(len(prefix), len(ch.taken)):
            k, c = ch.taken[i]
            for alt in range(1, k):
                stack.append([cc for _, cc in ch.taken[:i]] + [alt])
        if cap is not None and n >= cap:
            raise common.HarnessError(f'choice exploration exceeded its cap of {cap} executions')
