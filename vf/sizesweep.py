"""Size sweeps for the stages whose index arithmetic depends on size relations (part lengths with common
factors, length vs. batch size, slice bounds and steps): complete enumeration of the size parameters up to a
bound, compared with plain list arithmetic.  Used by C01 (iteration) and C02 (len / indexing)."""
import collections
import itertools
from fractions import Fraction

from vf import common
from vf import observe as O


def ref_intersperse(lengths):
    order = sorted((Fraction(j + 1, n), d, j) for d, n in enumerate(lengths) for j in range(n))
    return [(d, j) for _, d, j in order]


def check_observation(prop, ds, want, what, tag, report):
    """Compare iteration (C01) or len + every index of both signs (C02) of `ds` with the list `want`."""
    n = len(want)
    if prop == 'C01':
        got = O.run_iter(lambda: iter(ds), n + 3)
        if got != ([O.canon(v) for v in want], None):
            report(f'size-sweep/{what}/iter', f'{tag}: iteration gives {got[0][:12]}..., expected {[O.canon(v) for v in want][:12]}...')
            return False
        return True
    ln = O.impl_len(ds)
    if ln != n:
        report(f'size-sweep/{what}/len', f'{tag}: len={ln}, {n} examples')
        return False
    for i in list(range(-1, -n - 1, -1)) + list(range(n)) + [n, -n - 1]:
        got = O.get_index(ds, i)
        if -n <= i < n:
            if got[0] != 'val' or got[1] != O.canon(want[i]):
                report(f'size-sweep/{what}/index', f'{tag}: ds[{i}] gave {got[:2]}, expected {O.canon(want[i])}')
                return False
        elif got[0] == 'val' or not got[2]:
            report(f'size-sweep/{what}/index-out-of-range', f'{tag}: ds[{i}] gave {got[:2]}, expected IndexError')
            return False
    return True


def _task(args):
    prop, kind, params = args
    import lazy_dataset
    st = collections.Counter()
    viols = {}

    def report(key, detail):
        if key not in viols:
            viols[key] = common.Violation(prop, key, detail, {'engine': 'sizesweep', 'kind': kind, 'params': params}).to_json()

    def mk(n, base):
        return lazy_dataset.new([base + i for i in range(n)])

    if kind == 'intersperse2':
        n1, nmax = params
        for n2 in range(1, nmax + 1):
            st['states'] += 1
            a, b = mk(n1, 0), mk(n2, 1000)
            vals = [list(a), list(b)]
            want = [vals[d][j] for d, j in ref_intersperse([n1, n2])]
            check_observation(prop, a.intersperse(b), want, 'intersperse', f'intersperse of lengths ({n1}, {n2})', report)
            st['transitions'] += n1 + n2
    elif kind == 'intersperse3':
        n1, nmax = params
        for n2, n3 in itertools.product(range(1, nmax + 1), repeat=2):
            st['states'] += 1
            parts = [mk(n1, 0), mk(n2, 1000), mk(n3, 2000)]
            vals = [list(p) for p in parts]
            want = [vals[d][j] for d, j in ref_intersperse([n1, n2, n3])]
            check_observation(prop, parts[0].intersperse(parts[1], parts[2]), want, 'intersperse',
                              f'intersperse of lengths ({n1}, {n2}, {n3})', report)
            st['transitions'] += n1 + n2 + n3
    elif kind == 'batch':
        n, bmax = params
        base = mk(n, 0)
        vals = list(range(n))
        for bs in range(1, bmax + 1):
            for drop in (False, True):
                st['states'] += 1
                want = [vals[i:i + bs] for i in range(0, n, bs)]
                if drop:
                    want = [w for w in want if len(w) == bs]
                check_observation(prop, base.batch(bs, drop_last=drop), want, 'batch', f'n={n} batch({bs}, drop_last={drop})', report)
                if prop == 'C01':
                    check_observation(prop, base.batch(bs, drop_last=drop).unbatch(), [x for w in want for x in w], 'unbatch',
                                      f'n={n} batch({bs}, drop_last={drop}).unbatch()', report)
                st['transitions'] += n
    elif kind == 'slice':
        n, = params
        base = mk(n, 0)
        vals = list(range(n))
        bounds = [None] + list(range(-n - 1, n + 2))
        for a, b in itertools.product(bounds, repeat=2):
            for c in (None, 1, 2, 3, -1, -2):
                st['states'] += 1
                want = vals[a:b:c]
                check_observation(prop, base[a:b:c], want, 'slice', f'n={n} ds[{a}:{b}:{c}]', report)
                st['transitions'] += len(want)
    elif kind == 'concat':
        n1, nmax = params
        for n2, n3 in itertools.product(range(0, nmax + 1), repeat=2):
            st['states'] += 1
            parts = [mk(n1, 0), mk(n2, 1000), mk(n3, 2000)]
            want = [x for p in parts for x in p]
            check_observation(prop, parts[0].concatenate(parts[1], parts[2]), want, 'concatenate',
                              f'concatenate of lengths ({n1}, {n2}, {n3})', report)
            st['transitions'] += len(want)
    return st, list(viols.values())


def jobs(prop, tier):
    q = tier == 'quick'
    out = []
    m2 = 40 if q else 64
    for n1 in range(1, m2 + 1):
        out.append((prop, 'intersperse2', (n1, m2)))
    m3 = 8 if q else 14
    for n1 in range(1, m3 + 1):
        out.append((prop, 'intersperse3', (n1, m3)))
    for n in range(0, 30 if q else 60):
        out.append((prop, 'batch', (n, 9)))
    for n in range(0, 7 if q else 10):
        out.append((prop, 'slice', (n,)))
    for n1 in range(0, 6 if q else 9):
        out.append((prop, 'concat', (n1, 6 if q else 9)))
    return out


def run(prop, tier, result):
    total = collections.Counter()
    js = jobs(prop, tier)
    for st, viols in common.pmap(_task, js):
        total.update(st)
        result.violations.extend(common.Violation.from_json(v) for v in viols)
    result.coverage['states'] = result.coverage.get('states', 0) + total['states']
    result.coverage['transitions'] = result.coverage.get('transitions', 0) + total['transitions']
    result.coverage['size_sweep_states'] = total['states']
    return total


def replay(prop, r):
    res = common.Result()
    st, viols = _task((prop, r['kind'], tuple(r['params'])))
    res.violations = [common.Violation.from_json(v) for v in viols]
    res.coverage.update(states=st['states'], transitions=st['transitions'])
    return res
