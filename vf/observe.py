"""Full observation of a real dataset object against its reference value.

`observe(ds, ref, what)` returns a list of mismatches `(kind, detail)`.  Only observations the reference
defines are judged (see ref.py); `what` selects observation groups so that each property's check pays
only for what it decides:  'iter' (C01), 'index' (C02), 'keys' (C03)."""
import itertools
import signal

import numpy as np

from vf.ref import Err


class Timeout(BaseException):
    pass


class deadline:
    """Turns a hang of the code under test (main thread) into an observation instead of a stuck check."""

    def __init__(self, seconds):
        self.seconds = seconds

    def _fire(self, *a):
        raise Timeout()

    def __enter__(self):
        self.old = signal.signal(signal.SIGALRM, self._fire)
        signal.setitimer(signal.ITIMER_REAL, self.seconds)

    def __exit__(self, *a):
        signal.setitimer(signal.ITIMER_REAL, 0)
        signal.signal(signal.SIGALRM, self.old)
        return False


def canon(v):
    """Canonical, type-sensitive rendering of an example (list vs tuple matters, numpy ints do not)."""
    if isinstance(v, (np.integer,)):
        return repr(int(v))
    if isinstance(v, list):
        return '[' + ','.join(canon(x) for x in v) + ']'
    if isinstance(v, tuple):
        return '(' + ','.join(canon(x) for x in v) + ')'
    if isinstance(v, dict):
        return '{' + ','.join(f'{canon(k)}:{canon(x)}' for k, x in v.items()) + '}'
    if isinstance(v, (np.str_,)):
        return repr(str(v))
    return repr(v)


def exc_name(e):
    return type(e).__name__


def expected_stream(values):
    """(prefix values, name of the exception that ends the stream or None)."""
    out = []
    for v in values:
        if isinstance(v, Err):
            return out, v.exc
        out.append(v)
    return out, None


def run_iter(make_iter, cap):
    """Consume an iterator factory: (canon values, exception name | None)."""
    out = []
    it = None
    try:
        with deadline(10):
            it = make_iter()
            for x in itertools.islice(it, cap):
                out.append(canon(x))
    except Timeout:
        return out, 'HANG'
    except BaseException as e:          # noqa: BLE001  (we want to see everything the library raises)
        return out, exc_name(e)
    finally:
        # never leave an unfinished prefetching generator to the cyclic garbage collector: CPython 3.12 may run
        # its finalizer (which joins a thread) inside threading's own shutdown-lock bookkeeping and deadlock there
        close = getattr(it, 'close', None)
        if close is not None:
            try:
                with deadline(10):
                    close()
            except BaseException:       # noqa: BLE001
                pass
    return out, None


def _close(it):
    close = getattr(it, 'close', None)
    if close is not None:
        try:
            with deadline(10):
                close()
        except BaseException:       # noqa: BLE001
            pass


def run_partial_then_full(ds, cap):
    """Take one example, abandon that iteration, then iterate completely."""
    it = None
    try:
        with deadline(10):
            it = iter(ds)
            next(it)
    except BaseException:       # noqa: BLE001   (empty / failing first example: nothing to abandon)
        _close(it)
        return None
    _close(it)
    return run_iter(lambda: iter(ds), cap)


def run_interleaved(ds, cap):
    """Two iterators over one object advanced alternately; returns both streams."""
    its = [None, None]
    outs = [[], []]
    excs = [None, None]
    try:
        with deadline(20):
            its[0], its[1] = iter(ds), iter(ds)
            live = [True, True]
            for _ in range(cap):
                for j in (0, 1):
                    if not live[j]:
                        continue
                    try:
                        outs[j].append(canon(next(its[j])))
                    except StopIteration:
                        live[j] = False
                    except BaseException as e:      # noqa: BLE001
                        live[j] = False
                        excs[j] = exc_name(e)
                if not any(live):
                    break
    except Timeout:
        excs = ['HANG', 'HANG']
    finally:
        _close(its[0])
        _close(its[1])
    return (outs[0], excs[0]), (outs[1], excs[1])


def exc_ok(got, want):
    """Does the observed exception class name match the injected one (subclass names are exact here)."""
    if want is None:
        return got is None
    return got == want


def cmp_stream(kind, got, exp_vals, exp_exc, out):
    gv, ge = got
    ev = [canon(v) for v in exp_vals]
    if gv != ev or not exc_ok(ge, exp_exc):
        if ge is not None and ge != exp_exc:
            kind = f'{kind}:{ge}'
        out.append((kind, f'got {gv} then {ge}; expected {ev} then {exp_exc}'))
        return False
    return True


def impl_indexable(ds):
    try:
        v = ds.indexable
    except BaseException:       # noqa: BLE001
        return False
    return v is True or (isinstance(v, (bool, np.bool_)) and bool(v))


def impl_len(ds):
    try:
        return int(len(ds))
    except BaseException:       # noqa: BLE001
        return None


def get_index(ds, i):
    try:
        with deadline(10):
            return ('val', canon(ds[i]))
    except Timeout:
        return ('exc', 'HANG')
    except BaseException as e:  # noqa: BLE001
        return ('exc', exc_name(e), isinstance(e, IndexError))


def observe_iter(ds, ref, out):
    n = ref.n()
    if ref.finite:
        vals, exc = expected_stream(ref.values())
        cap = n + 3
    else:
        total = 2 * n + 1
        vals, exc = expected_stream((ref.values() * 3)[:total])
        cap = total
    for kind in ('iter', 'iter-again'):
        if not cmp_stream(kind, run_iter(lambda: iter(ds), cap), vals, exc, out):
            return
    if ref.finite:
        # an aborted iteration and two iterations in flight over the SAME object must not disturb each other
        got = run_partial_then_full(ds, cap)
        if got is not None and not cmp_stream('iter-after-aborted-iteration', got, vals, exc, out):
            return
        a, b = run_interleaved(ds, cap)
        if a is not None:
            if not (cmp_stream('iter-two-iterators-in-flight', a, vals, exc, out)
                    and cmp_stream('iter-two-iterators-in-flight', b, vals, exc, out)):
                return
        for kind, freeze in (('copy', False), ('copy-freeze', True)):
            try:
                c = ds.copy(freeze=freeze)
            except BaseException as e:      # noqa: BLE001
                out.append((kind, f'copy(freeze={freeze}) raised {exc_name(e)}'))
                continue
            cmp_stream(kind, run_iter(lambda: iter(c), cap), vals, exc, out)


def observe_index(ds, ref, out):
    n = ref.n()
    il = impl_len(ds)
    if ref.finite and (ref.sized or il is not None) and not (not ref.sized and ref.has_err()):
        # a dataset that offers a length reports exactly the number of examples it yields
        if il != n:
            out.append(('len', f'len(ds)={il}, iteration yields {n}'))
            return
    ii = impl_indexable(ds)
    if ref.indexable and not ii:
        out.append(('indexable-lost', f'reference stage is indexable, implementation reports {ii}'))
        return
    if not ii:
        return
    if not ref.finite:
        # cycle: only the positions iteration defines
        for i in range(0, 2 * n + 1):
            exp = ref.items[i % n][1]
            _cmp_index(ds, i, exp, out)
        return
    if il is None:
        return
    # random access before (re-)iteration and not in ascending order: state that a stage fills lazily by access
    # (caches) must not depend on the order of the accesses
    for i in list(range(-1, -n - 1, -1)) + list(range(n)) + [n, n + 1, -n - 1, -n - 2]:
        exp = ref.items[i % n][1] if (n and -n <= i < n) else IndexError
        for ix in (i, np.int64(i)):
            if not _cmp_index(ds, ix, exp, out):
                return
    if not ref.has_err():
        vals, exc = expected_stream(ref.values())
        cmp_stream('iter-after-index', run_iter(lambda: iter(ds), n + 3), vals, exc, out)


def _cmp_index(ds, i, exp, out):
    got = get_index(ds, i)
    tag = f'{type(i).__name__}({int(i)})'
    if exp is IndexError:
        if got[0] == 'val':
            out.append(('index-out-of-range-returns', f'ds[{tag}] returned {got[1]}, expected IndexError'))
            return False
        if not got[2]:
            out.append((f'index-out-of-range-wrong-error:{got[1]}', f'ds[{tag}] raised {got[1]}, expected IndexError'))
            return False
        return True
    if isinstance(exp, Err):
        if got[0] == 'val' or got[1] != exp.exc:
            out.append(('index-error-lost' + (f':{got[1]}' if got[0] == 'exc' else ''),
                        f'ds[{tag}] gave {got[:2]}, expected {exp.exc} raised'))
            return False
        return True
    if got[0] != 'val' or got[1] != canon(exp):
        kind = 'index-negative' if int(i) < 0 else 'index'
        if got[0] == 'exc':
            kind += ':' + got[1]
        out.append((kind, f'ds[{tag}] gave {got[:2]}, expected {canon(exp)}'))
        return False
    return True


def observe_keys(ds, ref, absent, out):
    n = ref.n()
    have_keys = all(k is not None for k, _ in ref.items)
    if ref.keyed:
        try:
            ks = [str(k) if isinstance(k, np.str_) else k for k in ds.keys()]
            if ks != ref.keys():
                out.append(('keys', f'keys()={ks}, expected {ref.keys()}'))
        except BaseException as e:      # noqa: BLE001
            kind = ('keys-empty' if n == 0 else 'keys') + ':' + exc_name(e)
            out.append((kind, f'keys() raised {exc_name(e)}: {str(e)[:60]!r}, expected {ref.keys()}'))
    if not ref.keyed and have_keys and ref.finite:
        # a stage the reference does not expect to expose keys: if it does, they must be right
        try:
            ks = [str(k) if isinstance(k, np.str_) else k for k in ds.keys()]
        except BaseException:       # noqa: BLE001
            ks = None
        if ks is not None and ks != ref.keys():
            out.append(('keys', f'keys()={ks}, but iteration yields the examples of {ref.keys()}'))
    # items(): pairs in iteration order with the very examples iteration yields
    if ref.finite and (ref.items_mode == 'yes' or (have_keys and n and ref.items_mode in ('maybe', 'no'))):
        pairs = [(v if isinstance(v, Err) else (k, v)) for k, v in ref.items]
        vals, exc = expected_stream(pairs)
        for kind in ('items', 'items-again'):
            try:
                it_ds = ds.items()
            except BaseException as e:      # noqa: BLE001
                got = ([], exc_name(e))
            else:
                got = run_iter(lambda: iter(it_ds), n + 3)
            ev = [canon(v) for v in vals]
            if ref.items_mode == 'yes':
                if got[0] != ev or not exc_ok(got[1], exc):
                    if got[1] is not None and got[1] != exc:
                        kind = f'{kind}:{got[1]}'
                    out.append((kind, f'items() gave {got[0]} then {got[1]}; expected {ev} then {exc}'))
                    break
            else:
                # a stage that may refuse: whatever it yields must be correct pairs, then finish or refuse
                if got[0] != ev[:len(got[0])] or (got[1] is None and got[0] != ev):
                    out.append((kind + '-wrong-pairs', f'items() gave {got[0]} then {got[1]}; '
                                                       f'expected {ev} or a refusal'))
                    break
    # key lookup
    if have_keys and ref.finite:
        table = {}
        for k, v in ref.items:
            table.setdefault(k, v)
        for k, v in table.items():
            got = get_index(ds, k)
            if ref.lookup:
                if isinstance(v, Err):
                    if got[0] == 'val':
                        out.append(('lookup', f'ds[{k!r}] returned {got[1]}, expected {v.exc}'))
                elif got[0] != 'val' or got[1] != canon(v):
                    out.append(('lookup', f'ds[{k!r}] gave {got[:2]}, expected {canon(v)}'))
            elif got[0] == 'val' and not isinstance(v, Err) and got[1] != canon(v):
                out.append(('lookup', f'ds[{k!r}] returned {got[1]}, expected {canon(v)} (or a refusal)'))
        if ref.lookup:
            for a in absent:
                if a in table:
                    continue
                got = get_index(ds, a)
                if got[0] == 'val':
                    out.append(('absent-key-returns-value', f'ds[{a!r}] returned {got[1]} for a key the '
                                                            f'dataset does not contain (keys {list(table)})'))
                    break


def observe(ds, ref, what, absent=('zz', '')):
    out = []
    if 'iter' in what:
        observe_iter(ds, ref, out)
    if 'index' in what:
        observe_index(ds, ref, out)
    if 'keys' in what:
        observe_keys(ds, ref, absent, out)
    return out
