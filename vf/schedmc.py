"""E2 explorer: stateless depth-first search over the schedules of one configuration of the real
prefetch / parallel-map code (vf.sched supplies the controlled runtime).

mode 'P'  every Mazurkiewicz trace of the visible operations is executed at least once (sleep sets, no
          bound); visible = modelled primitives + racy closure cells + harness log events.
mode 'L'  every source line of the library's concurrency code is a scheduling point, no reduction,
          iterative preemption bound.
"""
import collections
import gc
import json

from vf import common
from vf import sched as S

_INSTALLED = False
_GC = {'n': 0}


def ensure_installed():
    global _INSTALLED
    if not _INSTALLED:
        import lazy_dataset.parallel_utils as pu
        import lazy_dataset.core as core
        S.install(pu, extra_roots=(core,))
        _wrap_cache(core)
        _INSTALLED = True
    return S.MONITOR


def _wrap_cache(core):
    """The memory cache is shared mutable state between prefetch workers: its reads and writes are visible
    operations (label ('cache', id)), otherwise the partial-order reduction would treat them as local."""
    for cname in ('_CacheWrapper', '_DiskCacheWrapper'):
        _wrap_cache_class(getattr(core, cname, None))


def _wrap_cache_class(cls):
    if cls is None:
        return
    for name in ('__getitem__', '__setitem__', '__contains__'):
        orig = getattr(cls, name, None)
        if orig is None:
            continue

        def make(orig):
            def wrapped(self, *a):
                s = S.CUR
                if s is not None and S.cur_thread() is not None:
                    s.point(('cache', s.stable_id('cache', getattr(self, 'cache', self))))
                return orig(self, *a)
            wrapped.__name__ = orig.__name__
            return wrapped
        setattr(cls, name, make(orig))


# --------------------------------------------------------------------------------------------------
# instrumented user code (picklable by value: the taps cross the modelled process boundary)

class UserError(Exception):
    pass


class UserBaseError(BaseException):
    pass


def exc_type(name):
    import lazy_dataset
    return {'FilterException': lazy_dataset.FilterException, 'ValueError': ValueError, 'KeyError': KeyError,
            'UserError': UserError, 'UserBaseError': UserBaseError, 'Exception': Exception,
            'IndexError': IndexError, 'StopIteration': StopIteration, 'AssertionError': AssertionError,
            'NotImplementedError': NotImplementedError, 'TypeError': TypeError,
            'SubFilter': _sub_filter()}[name]


_SUB = None


def _sub_filter():
    global _SUB, SubFilter
    if _SUB is None:
        import lazy_dataset
        _SUB = SubFilter = type('SubFilter', (lazy_dataset.FilterException,), {'__module__': __name__})
    return _SUB


class Tap:
    """Mapped function / source stage: logs start / end (or pull) events and fails where told to."""

    def __init__(self, kind, fail=None, visible=True, add=0, payload=None):
        self.kind, self.fail, self.visible, self.add, self.payload = kind, dict(fail or {}), visible, add, payload

    def __call__(self, x):
        s = S.CUR
        pos = x % 100 if isinstance(x, int) else x
        if self.kind == 'id':
            return x
        if self.kind == 'pull':
            if s is not None and S.cur_thread() is not None:
                s.emit('pull', pos)
            if pos in self.fail:
                raise exc_type(self.fail[pos])(f'src:{pos}')
            return x
        if s is not None and S.cur_thread() is not None:
            s.emit('start', pos)
        if pos in self.fail:
            if s is not None and S.cur_thread() is not None:
                s.emit('end', pos)
            raise exc_type(self.fail[pos])(f'fn:{pos}')
        if s is not None and S.cur_thread() is not None:
            s.emit('end', pos)
        return wrap_payload(x + self.add, self.payload)


class EqAny:
    """An example whose __eq__ answers True to everything (like unittest.mock.ANY)."""

    def __init__(self, v):
        self.v = v

    def __eq__(self, other):
        return True

    def __hash__(self):
        return 0


def wrap_payload(v, kind):
    if kind == 'ndarray':
        import numpy as np
        return np.array([v, v + 1])
    if kind == 'eq_any':
        return EqAny(v)
    if kind == 'none':
        return None if v % 2 else v
    return v


def _plus1000(x):
    return x + 1000


def _plus100(x):
    return x + 100


def _neg(x):
    return -x


def normalise_fail(fail):
    return {int(k): v for k, v in (fail or {}).items()}


class Harness:
    """One configuration: builds a fresh pipeline and plays the consumer."""

    def __init__(self, cfg):
        import lazy_dataset
        self.cfg = cfg
        self.twin = None
        n, w, b = cfg['n'], cfg['w'], cfg['b']
        backend = cfg.get('backend', 't')
        vis = bool(cfg.get('log_visible', False))
        fail_fn = normalise_fail(cfg.get('fail_fn'))
        fail_src = normalise_fail(cfg.get('fail_src'))
        entry = cfg['entry']
        keyed = cfg.get('keyed', True)
        src = ({f'k{i}': i for i in range(n)} if keyed else list(range(n)))
        base = lazy_dataset.new(src)
        if entry == 'prefetch':
            ds = base
            if fail_src or cfg.get('pull_tap'):
                ds = ds.map(Tap('pull', fail_src, vis))
            ds = ds.map(Tap('fn', fail_fn, vis, add=100, payload=cfg.get('payload')))
            for stage in cfg.get('pre', []):
                ds = self._stage(ds, stage)
            if cfg.get('twin'):
                # the plain sequential pipeline with an equally seeded generator, consumed next to the real one
                tw = base.map(_plus100)
                for stage in cfg.get('pre', []):
                    tw = self._stage(tw, stage)
                self.twin = tw
            kw = {}
            if cfg.get('catch') is not None:
                c = cfg['catch']
                kw['catch_filter_exception'] = True if c is True else \
                    (exc_type(c[0]) if len(c) == 1 else tuple(exc_type(x) for x in c))
            ds = ds.prefetch(w, b, backend, **kw)
        elif entry == 'cache_threads':
            import tempfile
            self.pristine = [{'x': [i, i], 'y': {'z': i}} for i in range(n)]
            src = lazy_dataset.new({f'k{i}': ex for i, ex in enumerate(self.pristine)}).map(Tap('id', {}, vis))
            if cfg.get('kind') == 'diskcache':
                self.tmp = tempfile.mkdtemp(prefix='verif_c09_e2_', dir='/var/tmp')
                ds = src.diskcache(cache_dir=self.tmp + '/c')
            else:
                ds = src.cache()
        elif entry == 'parmap':
            ds = base.map(Tap('pull', fail_src, vis))
            for stage in cfg.get('pre', []):
                ds = self._stage(ds, stage)
            ds = ds.map(Tap('fn', fail_fn, vis, add=100, payload=cfg.get('payload')), num_workers=w, buffer_size=b,
                        backend=backend)
            if cfg.get('twin'):
                tw = base
                for stage in cfg.get('pre', []):
                    tw = self._stage(tw, stage)
                self.twin = tw.map(_plus100)
        else:
            raise ValueError(entry)
        for stage in cfg.get('post', []):
            ds = self._stage(ds, stage)
        if cfg.get('profile'):
            ds = lazy_dataset.core.ProfilingDataset(ds)
        if cfg.get('copy_first'):
            ds = ds.copy()
        self.ds = ds
        self.rounds = []          # per consumer round: {'delivered': [...], 'exc': name|None}

    @staticmethod
    def _stage(ds, stage):
        if stage == 'reshuffle':
            import numpy as np
            return ds.shuffle(True, rng=np.random.RandomState(7))
        if stage == 'tile2':
            return ds.tile(2)
        if stage == 'cache':
            return ds.cache()
        if stage == 'concat_map':
            return ds.concatenate(ds.map(_plus1000))
        if stage == 'slice_rev':
            return ds[::-1]
        if stage == 'sort':
            return ds.sort(_neg)
        if stage == 'intersperse_map':
            return ds.intersperse(ds.map(_plus1000))
        if stage == 'zip_map':
            return ds.zip(ds.map(_plus1000))
        if stage == 'key_zip_map':
            return ds.key_zip(ds.map(_plus1000))
        if stage == 'items':
            return ds.items()
        if stage[0] == 'batch':
            return ds.batch(stage[1])
        raise ValueError(stage)

    def main_cache_threads(self):
        """Several threads fetch the same cold example from one cache and scribble on what they got; afterwards the
        main thread reads it back through several paths."""
        import copy as _copy
        cfg = self.cfg
        ds = self.ds
        want = _copy.deepcopy(self.pristine)

        def worker(idx, via_copy):
            d = ds.copy() if via_copy else ds
            v = d[idx]
            v['x'].append('MUT')
            v['y']['z'] = 'MUT'
            v['new'] = 1

        threads = [S.FakeThread(target=worker, args=(cfg.get('index', 0), bool(t % 2 and cfg.get('copies'))))
                   for t in range(cfg['w'])]
        for t in threads:
            t.start()
        for t in threads:
            t.join()
        rec = {'consumer': ['reads'], 'delivered': [], 'exc': None}
        self.rounds.append(rec)
        try:
            i = cfg.get('index', 0)
            reads = [ds[i], ds[i - cfg['n']], ds[f'k{i}'], list(ds)[i], ds.copy()[i]]
            rec['delivered'] = [r == want[i] for r in reads]
            rec['values'] = repr(reads)[:300]
        except S.Abort:
            raise
        except BaseException as e:      # noqa: BLE001
            rec['exc'] = type(e).__name__
        finally:
            tmp = getattr(self, 'tmp', None)
            if tmp:
                import shutil
                del ds
                self.ds = None
                import gc
                gc.collect()
                shutil.rmtree(tmp, ignore_errors=True)

    def main(self):
        if self.cfg['entry'] == 'cache_threads':
            return self.main_cache_threads()
        s = S.CUR
        cfg = self.cfg
        for rnd, consumer in enumerate(cfg.get('consumers', [['exhaust']])):
            rec = {'delivered': [], 'exc': None, 'consumer': consumer}
            self.rounds.append(rec)
            s.emit('round', rnd)
            try:
                if self.twin is not None:
                    rec['expected'] = [_val(x) for x in (self.twin.items() if cfg.get('mode') == 'items' else self.twin)]
                it = iter(self.ds.items()) if cfg.get('mode') == 'items' else iter(self.ds)
                if consumer[0] == 'exhaust':
                    for x in it:
                        s.emit('deliver', _val(x))
                        rec['delivered'].append(_val(x))
                elif consumer[0] == 'two-iterators':
                    # two independent iterations over the same dataset object are alive at the same time
                    k = consumer[1]
                    first, second = [], []
                    for _ in range(k):
                        first.append(_val(next(it)))
                    it2 = iter(self.ds.items()) if cfg.get('mode') == 'items' else iter(self.ds)
                    for x in it2:
                        second.append(_val(x))
                    for x in it:
                        first.append(_val(x))
                    rec['delivered'] = [first, second]
                else:
                    k = consumer[1]
                    stopped_early = False
                    for _ in range(k):
                        try:
                            x = next(it)
                        except StopIteration:
                            stopped_early = True
                            break
                        s.emit('deliver', _val(x))
                        rec['delivered'].append(_val(x))
                    if not stopped_early:
                        s.emit('stop', rnd)
                        if consumer[0] == 'close':
                            it.close()
                        elif consumer[0] == 'drop':
                            # garbage collection of the abandoned iterator, at a definite moment
                            del it
                            gc.collect()
                        else:
                            raise ValueError(consumer)
            except S.Abort:
                raise
            except BaseException as e:      # noqa: BLE001
                rec['exc'] = type(e).__name__
                rec['exc_args'] = repr(getattr(e, 'args', ()))[:80]
            it = None
            if cfg.get('profile'):
                rec['profile_counts'] = _profile_counts(self.ds)
            s.emit('returned', rnd)
            if rnd + 1 >= cfg.get('branch_rounds', 1):
                # later rounds only probe state carried over between iterations (cached pools, caches): they
                # run under the default schedule so that the search space is that of the explored rounds
                s.branching = False


def _profile_counts(node):
    out = [list(node.hit_count)]
    inner = node.input_dataset
    for x in getattr(inner, 'input_datasets', ()):
        out += _profile_counts(x)
    if hasattr(inner, 'input_dataset'):
        out += _profile_counts(inner.input_dataset)
    return out


def _val(x):
    if isinstance(x, EqAny):
        return ['eq_any', x.v]
    if type(x).__module__ == 'numpy' and hasattr(x, 'tolist'):
        return ['ndarray', x.tolist()]
    if x is None:
        return None
    if isinstance(x, tuple):
        return [_val(v) for v in x]
    if isinstance(x, list):
        return [_val(v) for v in x]
    if isinstance(x, (int, str)):
        return x
    return repr(type(x).__name__)


# --------------------------------------------------------------------------------------------------

class Execution:
    __slots__ = ('choices', 'points', 'log', 'trace', 'error', 'pruned', 'rounds', 'steps', 'thread_excs',
                 'max_q', 'steps_rec', 'spawned_at')

    def key(self):
        return json.dumps([self.rounds, type(self.error).__name__ if self.error else None], sort_keys=True)


def run_one(cfg, prefix, mode='P', sleep_after=None):
    mon = ensure_installed()
    mon.set_mode('L' if mode == 'L' else 'P')       # mode 'B': visible operations, preemption bounded, no sleep sets
    S.PATHOS_STATE.clear()
    h = Harness(cfg)
    if mode == 'D':
        sch = S.Sched(horizon=cfg.get('horizon', S.HORIZON), forced=prefix, sleep_after=sleep_after)
    else:
        sch = S.Sched(prefix, use_sleep=(mode == 'P'), horizon=cfg.get('horizon', S.HORIZON))
    # the cyclic garbage collector runs finalisers at arbitrary allocation points: it is switched off while an
    # execution is explored (the 'drop' consumer collects explicitly) and the young generations are collected
    # between executions
    gc.disable()
    sch.sync_events = frozenset(cfg.get('sync_events', ()))
    sch.log_points = frozenset(cfg.get('log_points', ()))
    sch.run(h.main)
    h.ds = None
    _GC['n'] += 1
    gc.collect(1 if _GC['n'] % 100 else 2)
    ex = Execution()
    ex.points, ex.log, ex.trace, ex.error, ex.pruned = sch.points, sch.log, sch.trace, sch.error, sch.pruned
    ex.choices = [p[1] for p in sch.points] if mode != 'D' else [r[1] for r in sch.steps_rec]
    ex.steps_rec, ex.spawned_at = sch.steps_rec, sch.spawned_at
    ex.rounds, ex.steps = h.rounds, sch.steps
    ex.thread_excs = [(t.name, type(t.exc).__name__) for t in sch.threads if t.exc is not None]
    return ex


def _races(nodes, spawned_at):
    """Flanagan-Godefroid race detection on an executed trace: for every event j the latest earlier event i of
    another thread that is dependent with it and does not happen-before the executing thread's previous event.
    Yields (i, tid_j).  Happens-before = program order + spawn + join + dependence, via vector clocks."""
    n = len(nodes)
    clocks = []                 # clock after event k: dict tid -> index+1 of the latest event of tid it depends on
    last_of = {}                # tid -> index of its latest event so far
    for j in range(n):
        tj = nodes[j]['chosen']
        lj = nodes[j]['enabled'][tj]
        base = {}
        if tj in last_of:
            base = dict(clocks[last_of[tj]])
        else:
            sp = spawned_at.get(tj, -1)
            if 0 <= sp < j:
                base = dict(clocks[sp])
        if lj is not None and lj[0] == 'thr' and lj[1] != tj and lj[1] in last_of:      # join: after all of that thread
            for k, v in clocks[last_of[lj[1]]].items():
                base[k] = max(base.get(k, 0), v)
        race = None
        c = dict(base)
        for i in range(j - 1, -1, -1):
            ti = nodes[i]['chosen']
            if ti == tj:
                continue
            li = nodes[i]['enabled'][ti]
            if not S.dependent(li, lj):
                continue
            if base.get(ti, 0) >= i + 1:
                continue        # i already happens-before this thread's previous event
            if race is None:
                race = i
            for k, v in clocks[i].items():
                c[k] = max(c.get(k, 0), v)
        c[tj] = j + 1
        clocks.append(c)
        last_of[tj] = j
        if race is not None:
            yield race, tj


def explore_dpor(cfg, oracle, cap=200000):
    """Mode 'D': dynamic partial-order reduction (Flanagan & Godefroid) combined with sleep sets, stateless with
    replay.  Every Mazurkiewicz trace of the visible operations is executed at least once; backtrack points are
    only added where a race between dependent operations was actually observed."""
    st = collections.Counter()
    outcomes = collections.Counter()
    logs = set()
    viols = {}
    nodes = []
    while True:
        if st['executions'] >= cap:
            st['capped'] = 1
            break
        forced = [nd['chosen'] for nd in nodes]
        sleep_after = nodes[-1].get('child_sleep', {}) if nodes else {}
        ex = run_one(cfg, forced, 'D', sleep_after)
        st['executions'] += 1
        st['steps'] += ex.steps
        if isinstance(ex.error, S.ReplayDivergence):
            raise common.HarnessError(f'replay divergence in {cfg}: {ex.error}')
        for en_map, tid, sleep in ex.steps_rec[len(nodes):]:
            nodes.append({'enabled': en_map, 'chosen': tid, 'backtrack': {tid}, 'done': {tid}, 'sleep': sleep})
        del nodes[len(ex.steps_rec):]
        if ex.pruned:
            st['pruned'] += 1
        else:
            st['complete'] += 1
            outcomes[ex.key()] += 1
            logs.add(hash(repr(ex.log)))
            for kind, detail in oracle(cfg, ex):
                if kind not in viols:
                    viols[kind] = {'kind': kind, 'detail': detail, 'choices': list(ex.choices), 'mode': 'D'}
        for i, tid in _races(nodes, ex.spawned_at):
            nd = nodes[i]
            if tid in nd['enabled']:
                nd['backtrack'].add(tid)
            else:
                nd['backtrack'].update(nd['enabled'])
        while nodes:
            nd = nodes[-1]
            cand = sorted(t for t in nd['backtrack'] if t not in nd['done'] and t not in nd['sleep'])
            if cand:
                t = cand[0]
                sl = dict(nd['sleep'])
                for q in nd['done']:
                    if q in nd['enabled']:
                        sl[q] = nd['enabled'][q]
                lt = nd['enabled'][t]
                nd['child_sleep'] = {q: lab for q, lab in sl.items() if q != t and not S.dependent(lab, lt)}
                nd['done'].add(t)
                nd['chosen'] = t
                break
            nodes.pop()
        else:
            break
    st['distinct_outcomes'] = len(outcomes)
    st['distinct_logs'] = len(logs)
    return st, list(viols.values()), outcomes


def explore(cfg, oracle, mode='P', bound=None, cap=200000):
    if mode == 'D':
        return explore_dpor(cfg, oracle, cap)
    """Depth-first over choice lists.  `oracle(cfg, execution)` returns a list of (kind, detail).
    Returns a stats dict and a list of violation dicts (kind, detail, choices)."""
    stack = [[]]
    st = collections.Counter()
    outcomes = collections.Counter()
    logs = set()
    viols = {}
    while stack:
        if st['executions'] >= cap:
            st['capped'] = 1
            break
        prefix = stack.pop()
        ex = run_one(cfg, prefix, mode)
        st['executions'] += 1
        st['steps'] += ex.steps
        if isinstance(ex.error, S.ReplayDivergence):
            raise common.HarnessError(f'replay divergence in {cfg}: {ex.error}')
        if ex.pruned:
            st['pruned'] += 1
        else:
            st['complete'] += 1
            outcomes[ex.key()] += 1
            logs.add(hash(repr(ex.log)))
            for kind, detail in oracle(cfg, ex):
                if kind not in viols:
                    viols[kind] = {'kind': kind, 'detail': detail, 'choices': list(ex.choices), 'mode': mode}
        pts = ex.points
        cost, costs = 0, []
        for (k, ch, cur0) in pts:
            costs.append(cost)
            if cur0 and ch != 0:
                cost += 1
        for i in range(len(prefix), len(pts)):
            k, ch, cur0 = pts[i]
            if bound is not None and costs[i] + (1 if cur0 else 0) > bound:
                continue
            for alt in range(1, k):
                stack.append([p[1] for p in pts[:i]] + [alt])
    st['distinct_outcomes'] = len(outcomes)
    st['distinct_logs'] = len(logs)
    return st, list(viols.values()), outcomes


def replay(cfg, choices, mode, oracle):
    """Re-run one recorded schedule twice; identical observations are required before it is believed."""
    a = run_one(cfg, choices, mode)
    b = run_one(cfg, choices, mode)
    shape = lambda ex: [(t, lab[0] if lab else None) for t, lab in ex.trace]      # noqa: E731
    if shape(a) != shape(b) or a.key() != b.key() or a.log != b.log:
        raise common.HarnessError('the same schedule gave two different executions')
    return a, oracle(cfg, a)
