"""E2 runtime: a baton scheduler that owns every thread the library starts.

Every logical thread is a real OS thread parked on its own semaphore; exactly one runs at a time.  A
thread announces its next *visible operation* with `point(label, cond)` and parks AT it, so the scheduler
always knows label and enabledness of every thread.  Choices are recorded; an execution is identified by
its choice list and can be replayed exactly.  Exploration (vf.schedmc) is stateless depth-first search
over choice lists with sleep sets (mode P) or with a preemption bound over all source lines (mode L).

Visible operations come from (1) the modelled primitives below (queue / threading / executors), which are
injected into lazy_dataset.parallel_utils' module namespace, (2) sys.monitoring LINE events on the code
objects of the library's concurrency code: in mode P the lines that touch a *racy closure cell*, in mode
L every line, (3) log events emitted by the harness' instrumented user functions.
"""
import collections
import dis
import pickle
import queue as _real_queue
import sys
import threading as _real_threading
import types

HORIZON = 4000


class Deadlock(Exception):
    pass


class HorizonExceeded(Exception):
    pass


class ThreadLeak(Exception):
    pass


class Abort(BaseException):
    """Unwinds every logical thread when an execution is abandoned (deadlock, pruned, horizon)."""


class ReplayDivergence(Exception):
    pass


def _unraisable(args, _old=sys.unraisablehook):
    if isinstance(args.exc_value, Abort):
        return          # an abandoned execution's generators being finalised
    _old(args)


sys.unraisablehook = _unraisable
_real_threading.excepthook = (lambda a, _old=_real_threading.excepthook:
                              None if isinstance(a.exc_value, Abort) else _old(a))

_TL = _real_threading.local()
CUR = None      # the Sched of the execution in progress (one at a time per process)


def cur_thread():
    return getattr(_TL, 'vt', None)


# --------------------------------------------------------------------------------------------------
# dependence relation between visible operations (static, label based)

COMMUTING_LOG = frozenset({'start', 'end', 'claim', 'cancelled', 'pull'})


def dependent(a, b):
    if a is None or b is None:
        return True
    if a[0] == 'multi':
        return any(dependent(x, b) for x in a[1])
    if b[0] == 'multi':
        return any(dependent(a, x) for x in b[1])
    if a[0] in ('line', 'sync') or b[0] in ('line', 'sync'):
        return True
    if a[0] != b[0]:
        return False
    k = a[0]
    if k == 'cell':
        for n1, m1 in a[1]:
            for n2, m2 in b[1]:
                if n1 == n2 and 'w' in (m1, m2):
                    return True
        return False
    if k == 'log':
        return not (a[1] in COMMUTING_LOG and b[1] in COMMUTING_LOG)
    if k == 'ex':           # executor-wide state (terminated flag): readers commute with each other
        return a[1] == b[1] and 'w' in (a[2], b[2])
    return a[1] == b[1]


class VThread:
    def __init__(self, tid, name):
        self.tid, self.name = tid, name
        self.sem = _real_threading.Semaphore(0)
        self.done = False
        self.pending = None         # label of the operation it is parked at
        self.cond = None            # enabledness predicate (None = always)
        self.timeout_ok = False     # the pending op has a timeout: fires only at quiescence
        self.timed_out = False
        self.os_thread = None
        self.exc = None
        self.daemon = False


class Sched:
    def __init__(self, prefix=(), use_sleep=True, horizon=HORIZON, forced=None, sleep_after=None):
        self.forced = None if forced is None else list(forced)      # DPOR mode: thread id to run at every step
        self.sleep_after = dict(sleep_after or {})                  # sleep set {tid: label} installed after the prefix
        self.dsleep = {}
        self.steps_rec = []         # DPOR mode: (enabled {tid: label}, chosen tid, sleep {tid: label}) per step
        self.spawned_at = {}        # tid -> index of the step during which the thread was spawned
        self.prefix = list(prefix)
        self.pos = 0
        self.threads = []
        self.points = []            # (n_candidates, chosen, current thread is candidate 0)
        self.sleep = set()
        self.use_sleep = use_sleep
        self.abort = False
        self.error = None
        self.pruned = False
        self.main_sem = _real_threading.Semaphore(0)
        self.log = []
        self.steps = 0
        self.horizon = horizon
        self.ids = collections.Counter()
        self.trace = []             # (tid, label) of every executed visible operation
        self.timeout_budget = 2     # how many timed waits may expire although another thread could still run
        self.timeouts_fired = 0
        self.branching = True       # False: follow the default schedule without recording choice points
        self.log_points = frozenset()    # names of log events that are points dependent with other log points only
        self.sync_events = frozenset()   # names of log events that are scheduling points ordered against everything

    # ---- identity of modelled objects (deterministic per execution)
    def new_id(self, kind):
        self.ids[kind] += 1
        return self.ids[kind]

    def stable_id(self, kind, obj):
        """A number for a foreign object that is the same in every execution of the same schedule (id() is not:
        exploration compares labels across executions)."""
        refs = self.__dict__.setdefault('_obj_refs', {})
        ent = refs.get(id(obj))
        if ent is None or ent[0] is not obj:
            ent = refs[id(obj)] = (obj, self.new_id(kind))
        return ent[1]

    # ---- threads
    def spawn(self, target, name='t'):
        t = VThread(len(self.threads), name)
        self.threads.append(t)
        t.pending = ('thr', t.tid)
        self.spawned_at[t.tid] = self.steps - 1

        def run():
            t.sem.acquire()
            if self.abort:
                t.done = True
                return
            _TL.vt = t
            try:
                try:
                    target()
                except Abort:
                    raise
                except BaseException as e:      # noqa: BLE001
                    t.exc = e
                # the end of a thread is a visible operation: join() / is_alive() depend on it
                self.point(('thr', t.tid))
            except Abort:
                t.done = True
                return
            t.done = True
            t.pending = None
            if not self.abort:
                self._dispatch(None)

        t.os_thread = _real_threading.Thread(target=run, daemon=True)
        t.os_thread.start()
        return t

    def _enabled(self):
        en = []
        for t in self.threads:
            if t.done or t.pending is None:
                continue
            if t.cond is None or t.cond():
                t.timed_out = False
                en.append(t)
            elif t.timeout_ok and self.timeouts_fired < self.timeout_budget and self.branching:
                # a deviation from the default environment answer: the timeout expires early
                t.timed_out = True
                en.append(t)
        if not en:
            # quiescence: operations with a timeout may now fire
            for t in self.threads:
                if not t.done and t.pending is not None and t.timeout_ok:
                    t.timed_out = True
                    en.append(t)
        return en

    def _dispatch(self, cur):
        en = self._enabled()
        if not en:
            if all(t.done for t in self.threads):
                self.main_sem.release()
                return None
            if all(t.done or t.daemon for t in self.threads):
                # only idle workers of a pool that is *designed* to outlive the iteration (pathos' globally
                # cached pool) are left: a normal end; unwind them without recording an error
                self._fail(None)
                return None
            self._fail(Deadlock('; '.join(
                f'{t.name}#{t.tid} blocked at {t.pending}' for t in self.threads if not t.done)))
            return None
        if self.forced is not None and self.branching:
            return self._dispatch_dpor(cur, en)
        if not self.branching:
            self.sleep = set()
        cand = [t for t in en if t.tid not in self.sleep]
        if not cand:
            self.pruned = True
            self._fail(None)
            return None
        cand.sort(key=lambda t: (t is not cur, t.tid))
        if len(cand) == 1 or not self.branching:
            c = 0
        else:
            if self.pos < len(self.prefix):
                c = self.prefix[self.pos]
                if c >= len(cand):
                    self._fail(ReplayDivergence(f'choice {c} of {len(cand)} at point {self.pos}'))
                    return None
            else:
                c = 0
            self.pos += 1
            self.points.append((len(cand), c, cand[0] is cur))
        nxt = cand[c]
        if self.use_sleep:
            newsleep = set(self.sleep) | {t.tid for t in cand[:c]}
            lab = nxt.pending
            self.sleep = {tid for tid in newsleep
                          if tid != nxt.tid and not dependent(self.threads[tid].pending, lab)}
        self.steps += 1
        self.trace.append((nxt.tid, nxt.pending))
        if self.steps > self.horizon:
            self._fail(HorizonExceeded(f'more than {self.horizon} visible operations'))
            return None
        if nxt is not cur:
            nxt.sem.release()
        return nxt

    def _dispatch_dpor(self, cur, en):
        step = len(self.steps_rec)
        en_map = {t.tid: t.pending for t in en}
        if step < len(self.forced):
            tid = self.forced[step]
            if tid not in en_map:
                self._fail(ReplayDivergence(f'thread {tid} is not enabled at step {step} ({sorted(en_map)})'))
                return None
            nxt = self.threads[tid]
            sleep_here = {}
        else:
            if step == len(self.forced):
                self.dsleep = dict(self.sleep_after)
            cand = [t for t in en if t.tid not in self.dsleep]
            if not cand:
                self.pruned = True
                self._fail(None)
                return None
            cand.sort(key=lambda t: (t is not cur, t.tid))
            nxt = cand[0]
            sleep_here = dict(self.dsleep)
            self.dsleep = {tid: lab for tid, lab in self.dsleep.items()
                           if tid != nxt.tid and not dependent(lab, nxt.pending)}
        self.steps_rec.append((en_map, nxt.tid, sleep_here))
        self.steps += 1
        self.trace.append((nxt.tid, nxt.pending))
        if self.steps > self.horizon:
            self._fail(HorizonExceeded(f'more than {self.horizon} visible operations'))
            return None
        if nxt is not cur:
            nxt.sem.release()
        return nxt

    def point(self, label, cond=None, timeout_ok=False):
        """Called by the running thread BEFORE it performs a visible operation."""
        if self.abort:
            raise Abort()
        cur = cur_thread()
        if cur is None:
            return False
        cur.pending, cur.cond, cur.timeout_ok = label, cond, timeout_ok
        nxt = self._dispatch(cur)
        if nxt is not cur:
            cur.sem.acquire()
        if self.abort:
            raise Abort()
        if cond is not None and timeout_ok and not cond():
            self.timeouts_fired += 1
            return True
        return False

    def _fail(self, err):
        if err is not None and self.error is None:
            self.error = err
        self.abort = True
        for t in self.threads:
            t.sem.release()
        self.main_sem.release()

    def emit(self, name, *data, visible=None):
        """Log event used by the oracles.  Events named in `sync_events` (consumer-side instants such as
        'deliver' or 'returned') are scheduling points that are dependent with every other operation, so
        both orders against every step of every other thread are explored; all other events are recorded
        inside the step of the visible operation that precedes them."""
        if name in self.sync_events:
            self.point(('sync', name))
        elif name in self.log_points:
            self.point(('log', name))
        t = cur_thread()
        self.log.append((name, t.tid if t else -1) + tuple(data))

    def run(self, main):
        global CUR
        CUR = self
        try:
            self.spawn(main, 'main')
            self._dispatch(None)
            self.main_sem.acquire()
            for t in self.threads:
                t.os_thread.join(10)
                if t.os_thread.is_alive():
                    self.error = self.error or RuntimeError(f'OS thread of {t.name}#{t.tid} did not unwind')
        finally:
            CUR = None
        return self


def _log(ev):
    if CUR is not None:
        CUR.log.append(ev)


def _pt(label, cond=None, timeout_ok=False):
    """Scheduling point if we run under the scheduler, a no-op otherwise (finalisers running outside an exploration)."""
    s = CUR
    if s is None or cur_thread() is None:
        return False
    return s.point(label, cond, timeout_ok)


# --------------------------------------------------------------------------------------------------
# modelled primitives: queue

class FakeQueue:
    lifo = False

    def __init__(self, maxsize=0):
        self.maxsize = maxsize
        self.items = collections.deque()
        self.qid = CUR.new_id('q') if CUR else 0
        self.max_seen = 0

    def _lab(self):
        return ('q', self.qid)

    def _full(self):
        return 0 < self.maxsize <= len(self.items)

    def put(self, item, block=True, timeout=None):
        s = CUR
        if s is None or cur_thread() is None:
            self.items.append(item)
            return
        if not block:
            s.point(self._lab())
            if self._full():
                raise _real_queue.Full
        else:
            timed = s.point(self._lab(), lambda: not self._full(), timeout_ok=timeout is not None)
            if timed and self._full():
                raise _real_queue.Full
        self.items.append(item)
        self.max_seen = max(self.max_seen, len(self.items))

    def get(self, block=True, timeout=None):
        s = CUR
        if s is None or cur_thread() is None:
            if not self.items:
                raise _real_queue.Empty
            return self.items.pop() if self.lifo else self.items.popleft()
        if not block:
            s.point(self._lab())
            if not self.items:
                raise _real_queue.Empty
        else:
            timed = s.point(self._lab(), lambda: len(self.items) > 0, timeout_ok=timeout is not None)
            if timed and not self.items:
                raise _real_queue.Empty
        return self.items.pop() if self.lifo else self.items.popleft()

    def get_nowait(self):
        return self.get(block=False)

    def put_nowait(self, item):
        return self.put(item, block=False)

    def qsize(self):
        if CUR is not None and cur_thread() is not None:
            _pt(self._lab())
        return len(self.items)

    def empty(self):
        if CUR is not None and cur_thread() is not None:
            _pt(self._lab())
        return not self.items

    def full(self):
        if CUR is not None and cur_thread() is not None:
            _pt(self._lab())
        return self._full()

    def task_done(self):
        pass

    def join(self):
        pass


class FakeLifoQueue(FakeQueue):
    lifo = True


class FakeSimpleQueue(FakeQueue):
    def __init__(self):
        super().__init__(0)


class FakeQueueModule:
    Queue = FakeQueue
    LifoQueue = FakeLifoQueue
    SimpleQueue = FakeSimpleQueue
    PriorityQueue = FakeQueue
    Empty = _real_queue.Empty
    Full = _real_queue.Full


# --------------------------------------------------------------------------------------------------
# modelled primitives: threading

class FakeThread:
    def __init__(self, group=None, target=None, name=None, args=(), kwargs=None, *, daemon=None):
        self._target, self._args, self._kwargs = target, args, kwargs or {}
        self.name = name or 'Thread'
        self.daemon = bool(daemon)
        self.vt = None

    def run(self):
        if self._target is not None:
            self._target(*self._args, **self._kwargs)

    def start(self):
        s = CUR
        self.vt = s.spawn(self.run, self.name)
        self.vt.daemon = self.daemon

    def join(self, timeout=None):
        vt = self.vt
        timed = _pt(('thr', vt.tid), lambda: vt.done, timeout_ok=timeout is not None)
        return None

    def is_alive(self):
        _pt(('thr', self.vt.tid))
        return self.vt is not None and not self.vt.done

    @property
    def ident(self):
        return None if self.vt is None else self.vt.tid


class FakeLock:
    reentrant = False

    def __init__(self):
        self.owner = None
        self.count = 0
        self.lid = CUR.new_id('lock') if CUR else 0

    def acquire(self, blocking=True, timeout=-1):
        s, me = CUR, cur_thread()
        if self.reentrant and self.owner is me and me is not None:
            self.count += 1
            return True
        if not blocking:
            s.point(('lock', self.lid))
            if self.owner is not None:
                return False
        else:
            has_to = timeout is not None and timeout >= 0
            timed = s.point(('lock', self.lid), lambda: self.owner is None, timeout_ok=has_to)
            if timed and self.owner is not None:
                return False
        self.owner, self.count = me, 1
        return True

    def release(self):
        _pt(('lock', self.lid))
        self.count -= 1
        if self.count <= 0:
            self.owner, self.count = None, 0

    def locked(self):
        return self.owner is not None

    def __enter__(self):
        self.acquire()
        return self

    def __exit__(self, *a):
        self.release()


class FakeRLock(FakeLock):
    reentrant = True


class FakeEvent:
    def __init__(self):
        self.flag = False
        self.eid = CUR.new_id('event') if CUR else 0

    def set(self):
        _pt(('event', self.eid))
        self.flag = True

    def clear(self):
        _pt(('event', self.eid))
        self.flag = False

    def is_set(self):
        _pt(('event', self.eid))
        return self.flag

    isSet = is_set

    def wait(self, timeout=None):
        _pt(('event', self.eid), lambda: self.flag, timeout_ok=timeout is not None)
        return self.flag


class FakeSemaphore:
    def __init__(self, value=1):
        self.value = value
        self.sid = CUR.new_id('sem') if CUR else 0

    def acquire(self, blocking=True, timeout=None):
        if not blocking:
            _pt(('sem', self.sid))
            if self.value <= 0:
                return False
        else:
            timed = _pt(('sem', self.sid), lambda: self.value > 0, timeout_ok=timeout is not None)
            if timed and self.value <= 0:
                return False
        self.value -= 1
        return True

    def release(self, n=1):
        _pt(('sem', self.sid))
        self.value += n

    def __enter__(self):
        self.acquire()
        return self

    def __exit__(self, *a):
        self.release()


class FakeCondition:
    def __init__(self, lock=None):
        self.lock = lock or FakeRLock()
        self.waiters = []
        self.cid = CUR.new_id('cond') if CUR else 0
        self.acquire, self.release = self.lock.acquire, self.lock.release

    def __enter__(self):
        self.lock.acquire()
        return self

    def __exit__(self, *a):
        self.lock.release()

    def wait(self, timeout=None):
        me = cur_thread()
        token = [False]
        self.waiters.append(token)
        saved = self.lock.count
        self.lock.owner, self.lock.count = None, 0
        _pt(('cond', self.cid), lambda: token[0], timeout_ok=timeout is not None)
        got = token[0]
        if token in self.waiters:
            self.waiters.remove(token)
        _pt(('lock', self.lock.lid), lambda: self.lock.owner is None)
        self.lock.owner, self.lock.count = me, saved
        return got

    def wait_for(self, predicate, timeout=None):
        r = predicate()
        while not r:
            if not self.wait(timeout) and timeout is not None:
                return predicate()
            r = predicate()
        return r

    def notify(self, n=1):
        _pt(('cond', self.cid))
        for token in self.waiters[:n]:
            token[0] = True
        del self.waiters[:n]

    def notify_all(self):
        self.notify(len(self.waiters))


class FakeThreadingModule:
    Thread = FakeThread
    Lock = FakeLock
    RLock = FakeRLock
    Event = FakeEvent
    Semaphore = FakeSemaphore
    BoundedSemaphore = FakeSemaphore
    Condition = FakeCondition
    local = _real_threading.local

    @staticmethod
    def current_thread():
        return cur_thread()

    @staticmethod
    def get_ident():
        t = cur_thread()
        return -1 if t is None else t.tid

    def __getattr__(self, name):
        return getattr(_real_threading, name)


# --------------------------------------------------------------------------------------------------
# modelled executors (environment models; semantics read off the installed library sources)

class CancelledError(Exception):
    pass


try:
    from concurrent.futures import CancelledError as CancelledError  # noqa: F811  (same class users catch)
    from concurrent.futures import Executor as _RealExecutor, Future as _RealFuture
except Exception:       # pragma: no cover
    _RealExecutor = _RealFuture = object

PENDING, RUNNING, CANCELLED, FINISHED = 'PENDING', 'RUNNING', 'CANCELLED', 'FINISHED'


class FakeFuture:
    def __init__(self):
        self.state = PENDING
        self._result = None
        self._exc = None
        self.fid = CUR.new_id('fut') if CUR else 0
        self.callbacks = []

    def _lab(self):
        return ('fut', self.fid)

    def cancel(self):
        _pt(self._lab())
        if self.state in (RUNNING, FINISHED):
            return False
        if self.state == PENDING:
            self.state = CANCELLED
            _log(('cancelled', cur_thread().tid if cur_thread() else -1, self.fid))
        return True

    def cancelled(self):
        _pt(self._lab())
        return self.state == CANCELLED

    def running(self):
        _pt(self._lab())
        return self.state == RUNNING

    def done(self):
        _pt(self._lab())
        return self.state in (CANCELLED, FINISHED)

    def result(self, timeout=None):
        timed = _pt(self._lab(), lambda: self.state in (CANCELLED, FINISHED),
                          timeout_ok=timeout is not None)
        if self.state == CANCELLED:
            raise CancelledError()
        if self.state != FINISHED:
            raise TimeoutError()
        if self._exc is not None:
            raise self._exc
        return self._result

    get = result        # multiprocessing.pool.ApplyResult spelling

    def exception(self, timeout=None):
        _pt(self._lab(), lambda: self.state in (CANCELLED, FINISHED))
        if self.state == CANCELLED:
            raise CancelledError()
        return self._exc

    def add_done_callback(self, fn):
        _pt(self._lab())
        if self.state in (CANCELLED, FINISHED):
            fn(self)
        else:
            self.callbacks.append(fn)

    # worker side
    def set_running_or_notify_cancel(self, veto=None, also=None):
        _pt(self._lab() if also is None else ('multi', (self._lab(), also)))
        if self.state == CANCELLED or (veto is not None and veto()):
            return False
        self.state = RUNNING
        _log(('claim', cur_thread().tid if cur_thread() else -1, self.fid))
        return True

    def _finish(self, result=None, exc=None, veto=None, also=None):
        _pt(self._lab() if also is None else ('multi', (self._lab(), also)))
        if veto is not None and veto():
            return          # the worker process was killed before it could deliver
        self._result, self._exc, self.state = result, exc, FINISHED
        for fn in self.callbacks:
            fn(self)

    def ready(self):
        return self.done()


class _PoolBase:
    """Common part of the executor models: a FIFO work queue and worker threads that take the next
    item, claim it (unless cancelled) and run it."""

    boundary = None         # None | 'pickle' | 'dill'
    kind = 'pool'
    persistent = False      # worker processes legitimately outlive the iteration (pathos' cached pool)

    def __init__(self, max_workers=None, *a, **k):
        self.max_workers = max_workers or 4
        self.workq = FakeQueue()
        self.workers = []
        self.idle = 0
        self.shut = False
        self.terminated = False
        self.xid = CUR.new_id('executor') if CUR else 0

    # -- (de)serialisation boundary of process pools, executed for real with pickle / dill
    def _ship(self, obj):
        if self.boundary is None:
            return obj
        mod = pickle
        if self.boundary == 'dill':
            import dill as mod
        return mod.loads(mod.dumps(obj))

    def _submit(self, fn, args, kwargs):
        fut = FakeFuture()
        _log(('submit', cur_thread().tid if cur_thread() else -1, fut.fid))
        try:
            payload = self._ship((fn, args, kwargs))
        except BaseException as e:      # noqa: BLE001   (real pools report this through the future)
            fut.state, fut._exc = FINISHED, e
            return fut
        self.workq.put((fut, payload))
        if self.idle > 0:
            self.idle -= 1
        elif len(self.workers) < self.max_workers:
            t = FakeThread(target=self._worker, name=f'{self.kind}-worker')
            self.workers.append(t)
            t.start()
            t.vt.daemon = self.persistent
        return fut

    def _worker(self):
        while True:
            item = self.workq.get()
            if item is None:
                self.workq.put(None)
                return
            fut, (fn, args, kwargs) = item
            if not fut.set_running_or_notify_cancel(veto=lambda: self.terminated, also=('ex', self.xid, 'r')):
                continue            # cancelled, or the pool was terminated: killed workers run nothing
            try:
                r = fn(*args, **kwargs)
                if self.terminated:
                    continue        # the worker process was killed meanwhile: its result is never delivered
                r = self._ship(r)
            except BaseException as e:      # noqa: BLE001
                if isinstance(e, Abort):
                    raise
                if self.terminated:
                    continue
                try:
                    e = self._ship(e)
                except BaseException as e2:     # noqa: BLE001
                    e = e2
                fut._finish(exc=e, veto=lambda: self.terminated, also=('ex', self.xid, 'r'))
            else:
                fut._finish(result=r, veto=lambda: self.terminated, also=('ex', self.xid, 'r'))
            self.idle += 1

    def _shutdown(self, wait=True, drop_pending=False):
        if drop_pending:
            _pt(('ex', self.xid, 'w'))    # killing the worker processes races with their claims and deliveries
        if CUR is not None:
            CUR.emit('shutdown-begin', self.xid)
        self.shut = True
        if drop_pending:
            self.terminated = True
        self.workq.put(None)
        if wait:
            for t in self.workers:
                t.join()


class FakeThreadPoolExecutor(_PoolBase):
    kind = 'tpe'

    def submit(self, fn, /, *args, **kwargs):
        if self.shut:
            raise RuntimeError('cannot schedule new futures after shutdown')
        return self._submit(fn, args, kwargs)

    def shutdown(self, wait=True, *, cancel_futures=False):
        if cancel_futures:
            keep = collections.deque()
            while self.workq.items:
                it = self.workq.items.popleft()
                if it is not None:
                    it[0].cancel()
        self._shutdown(wait=wait)

    def map(self, fn, *iterables, timeout=None, chunksize=1):
        # concurrent.futures.Executor.map: everything is submitted at call time; results are collected in order and what
        # is left is cancelled when the result iterator is closed
        fs = [self.submit(fn, *args) for args in zip(*iterables)]

        def result_iterator():
            try:
                fs.reverse()
                while fs:
                    yield fs.pop().result()
            finally:
                for f in fs:
                    f.cancel()
        return result_iterator()

    def __enter__(self):
        return self

    def __exit__(self, *a):
        self.shutdown(wait=True)
        return False


class FakeProcessPoolExecutor(FakeThreadPoolExecutor):
    kind = 'ppe'
    boundary = 'pickle'


class FakeMPPool(_PoolBase):
    """multiprocessing.Pool: apply_async/get; __exit__ = terminate(): pending work is dropped."""
    kind = 'mppool'
    boundary = 'pickle'

    def __init__(self, processes=None, *a, **k):
        super().__init__(processes)
        self.state = 'RUN'
        self._feeders = []

    def apply_async(self, func, args=(), kwds=None, callback=None, error_callback=None):
        if self.state != 'RUN':
            raise ValueError('Pool not running')
        return self._submit(func, tuple(args), dict(kwds or {}))

    # imap / imap_unordered / map: as in multiprocessing.pool, the pool's task-handler thread drains the input iterable
    # on its own, as fast as it can and without any bound; the caller only waits for results
    def _imap(self, func, iterable, ordered):
        if self.state != 'RUN':
            raise ValueError('Pool not running')
        st = {'futs': [], 'done': False, 'exc': None}
        lab = ('q', CUR.new_id('q') if CUR else 0)

        def feed():
            try:
                for x in iterable:
                    _pt(lab)
                    if self.terminated:
                        return
                    st['futs'].append(self._submit(func, (x,), {}))
            except Abort:
                raise
            except BaseException as e:      # noqa: BLE001  (re-raised by next() at that position)
                st['exc'] = e
            finally:
                st['done'] = True
        t = FakeThread(target=feed, name='mppool-taskhandler')
        self._feeders.append(t)
        t.start()

        def results():
            i = 0
            while True:
                _pt(lab, lambda: len(st['futs']) > i or st['done'])
                if len(st['futs']) > i:
                    if ordered:
                        f = st['futs'][i]
                    else:
                        pend = [x for x in st['futs'] if not getattr(x, '_taken', False)]
                        _pt(lab, lambda: any(x.state in (CANCELLED, FINISHED) for x in pend))
                        f = next(x for x in pend if x.state in (CANCELLED, FINISHED))
                        f._taken = True
                    i += 1
                    yield f.result()
                elif st['exc'] is not None:
                    raise st['exc']
                else:
                    return
        return results()

    def imap(self, func, iterable, chunksize=1):
        return self._imap(func, iterable, True)

    def imap_unordered(self, func, iterable, chunksize=1):
        return self._imap(func, iterable, False)

    def map(self, func, iterable, chunksize=None):
        return list(self._imap(func, list(iterable), True))

    def close(self):
        if self.state == 'RUN':
            self.state = 'CLOSE'
            self.workq.put(None)

    def terminate(self):
        if self.state != 'TERMINATE':
            self.state = 'TERMINATE'
            self._shutdown(wait=True, drop_pending=True)
            for t in self._feeders:
                t.join()

    def join(self):
        if self.state == 'RUN':
            raise ValueError('Pool is still running')
        for t in self.workers:
            t.join()

    def __enter__(self):
        if self.state != 'RUN':
            raise ValueError('Pool not running')
        return self

    def __exit__(self, *a):
        self.terminate()


class FakeDillPool(FakeMPPool):
    boundary = 'dill'
    kind = 'pathospool'
    persistent = True


PATHOS_STATE = {}       # pathos.multiprocessing.__STATE: one cached pool per id (= node count)


class FakePathosProcessPool:
    """pathos.multiprocessing.ProcessPool: a thin handle on a globally cached multiprocess.Pool."""

    def __init__(self, nodes=None, **kwds):
        self._nodes = nodes or 4
        self._id = self._nodes
        self._serve()

    def _serve(self):
        pool = PATHOS_STATE.get(self._id)
        if pool is None or pool.max_workers != self._nodes:
            self._clear()
            pool = FakeDillPool(self._nodes)
            PATHOS_STATE[self._id] = pool
        return pool

    def _clear(self):
        pool = PATHOS_STATE.get(self._id)
        if pool is not None and pool.max_workers == self._nodes:
            pool.close()
            pool.join()
            PATHOS_STATE.pop(self._id, None)

    clear = _clear

    def apipe(self, f, *args, **kwds):
        return self._serve().apply_async(f, args, kwds)

    def pipe(self, f, *args, **kwds):
        return self.apipe(f, *args, **kwds).get()

    def restart(self, force=False):
        pool = PATHOS_STATE.get(self._id)
        if pool is not None and pool.max_workers == self._nodes:
            if not force:
                assert pool.state != 'RUN'
            self._clear()
            PATHOS_STATE[self._id] = FakeDillPool(self._nodes)
        return PATHOS_STATE.get(self._id)

    def close(self):
        pool = PATHOS_STATE.get(self._id)
        if pool is not None:
            pool.close()

    def terminate(self):
        pool = PATHOS_STATE.get(self._id)
        if pool is not None:
            pool.terminate()

    def join(self):
        pool = PATHOS_STATE.get(self._id)
        if pool is not None:
            pool.join()

    def __enter__(self):
        return self

    def __exit__(self, *a):
        return          # pathos: a no-op (the pool stays cached and alive)


class _FuturesNS:
    ThreadPoolExecutor = FakeThreadPoolExecutor
    ProcessPoolExecutor = FakeProcessPoolExecutor
    Future = FakeFuture
    Executor = FakeThreadPoolExecutor
    CancelledError = CancelledError

    def __getattr__(self, name):
        import concurrent.futures as cf
        return getattr(cf, name)


class FakeConcurrentModule:
    futures = _FuturesNS()


# --------------------------------------------------------------------------------------------------
# visibility analysis of the library's concurrency code (sys.monitoring)

TOOL = 3


def code_objects(*roots):
    """All code objects reachable from functions / classes / modules (nested closures included)."""
    out, seen = [], set()

    def visit_code(c):
        if id(c) in seen:
            return
        seen.add(id(c))
        out.append(c)
        for k in c.co_consts:
            if isinstance(k, types.CodeType):
                visit_code(k)

    def visit(o, depth=0):
        if isinstance(o, types.FunctionType):
            visit_code(o.__code__)
        elif isinstance(o, (staticmethod, classmethod)):
            visit(o.__func__, depth)
        elif isinstance(o, property):
            for f in (o.fget, o.fset, o.fdel):
                if f is not None:
                    visit(f, depth)
        elif isinstance(o, type) and depth < 2:
            for v in vars(o).values():
                visit(v, depth + 1)
        elif isinstance(o, types.ModuleType) and depth == 0:
            for v in vars(o).values():
                if getattr(v, '__module__', None) == o.__name__:
                    visit(v, depth + 1)

    for r in roots:
        visit(r)
    return out


def racy_cell_lines(codes):
    """{code: {line: ('cell', frozenset((name, 'r'|'w')))}} for the closure cells that are written more
    than once or written from a nested function."""
    stores = collections.Counter()
    nested = set()
    for c in codes:
        for ins in dis.get_instructions(c):
            if ins.opname in ('STORE_DEREF', 'DELETE_DEREF'):
                stores[(c.co_filename, ins.argval)] += 1
                if ins.argval in c.co_freevars:
                    nested.add((c.co_filename, ins.argval))
    racy = {k for k, n in stores.items() if n > 1} | nested
    out = {}
    for c in codes:
        per = collections.defaultdict(set)
        for ins in dis.get_instructions(c):
            if ins.opname in ('LOAD_DEREF', 'STORE_DEREF', 'DELETE_DEREF', 'LOAD_CLOSURE') \
                    and (c.co_filename, ins.argval) in racy and ins.positions and ins.positions.lineno:
                if ins.opname == 'LOAD_CLOSURE':
                    continue
                per[ins.positions.lineno].add((ins.argval, 'r' if ins.opname == 'LOAD_DEREF' else 'w'))
        if per:
            out[c] = {ln: ('cell', frozenset(s)) for ln, s in per.items()}
    return out, sorted({n for _, n in racy})


class Monitor:
    """LINE-event hook on the library's concurrency code.  mode 'P': only racy-cell lines are visible;
    mode 'L': every line is a scheduling point."""

    def __init__(self):
        self.codes = []
        self.visible = {}
        self.racy = []
        self.mode = 'P'
        self.installed = False

    def install(self, codes):
        mon = sys.monitoring
        self.codes = list(codes)
        self.visible, self.racy = racy_cell_lines(self.codes)
        if not self.installed:
            mon.use_tool_id(TOOL, 'verif-sched')
            mon.register_callback(TOOL, mon.events.LINE, self._on_line)
            self.installed = True
        for c in self.codes:
            mon.set_local_events(TOOL, c, mon.events.LINE)

    def set_mode(self, mode):
        if mode != self.mode:
            self.mode = mode
            sys.monitoring.restart_events()

    def _on_line(self, code, line):
        s = CUR
        if s is None or cur_thread() is None:
            return None
        if self.mode == 'L':
            s.point(('line',))
            return None
        lab = self.visible.get(code, {}).get(line)
        if lab is None:
            return sys.monitoring.DISABLE
        s.point(lab)
        return None


MONITOR = Monitor()


def install(pu, extra_roots=()):
    """Inject the modelled primitives into lazy_dataset.parallel_utils and hook its code objects."""
    import multiprocessing
    pu.queue = FakeQueueModule
    pu.threading = FakeThreadingModule()
    pu.concurrent = FakeConcurrentModule
    import concurrent.futures as _cf
    by_object = {
        _real_queue.Queue: FakeQueue, _real_queue.LifoQueue: FakeLifoQueue, _real_queue.SimpleQueue: FakeSimpleQueue,
        _real_queue.PriorityQueue: FakeQueue,
        _real_threading.Thread: FakeThread, _real_threading.Lock: FakeLock, _real_threading.RLock: FakeRLock,
        _real_threading.Event: FakeEvent, _real_threading.Condition: FakeCondition,
        _real_threading.Semaphore: FakeSemaphore, _real_threading.BoundedSemaphore: FakeSemaphore,
        _cf.ThreadPoolExecutor: FakeThreadPoolExecutor, _cf.ProcessPoolExecutor: FakeProcessPoolExecutor,
        _real_queue: FakeQueueModule, _real_threading: None, _cf: _FuturesNS(),
    }
    for mod in (pu,) + tuple(m for m in extra_roots if isinstance(m, types.ModuleType)):
        # synchronisation primitives that a library module binds under any name at module level (import x,
        # import x as y, from x import Y) are owned as well
        for name, val in list(vars(mod).items()):
            try:
                fake = by_object.get(val, False)
            except TypeError:
                continue
            if fake is False:
                continue
            setattr(mod, name, FakeThreadingModule() if val is _real_threading else fake)
    multiprocessing.Pool = FakeMPPool
    pm = types.ModuleType('pathos.multiprocessing')
    pm.ProcessPool = FakePathosProcessPool
    pp = types.ModuleType('pathos.helpers.pp_helper')
    pp.ApplyResult = FakeFuture
    ph = types.ModuleType('pathos.helpers')
    ph.pp_helper = pp
    p = types.ModuleType('pathos')
    p.multiprocessing, p.helpers = pm, ph
    sys.modules.update({'pathos': p, 'pathos.multiprocessing': pm, 'pathos.helpers': ph,
                        'pathos.helpers.pp_helper': pp})
    MONITOR.install(code_objects(pu, *extra_roots))
    return MONITOR
