"""Conformance of the executor models: the same configurations that vf.schedmc explores on the modelled
pools are run here on the REAL thread / process pools (free running, in a separate interpreter without any
fake injected); every real observation must be a member of the outcome set the exploration produced.

usage: python -B vf/realpool.py <repo root>   (JSON list of configurations on stdin, JSON list of outcomes on stdout)
"""
import json
import os
import sys

HERE = os.path.dirname(os.path.abspath(__file__))
sys.path.insert(0, os.path.dirname(HERE))


def real_rounds(cfg):
    from vf import schedmc as M
    h = M.Harness(cfg)
    rounds = []
    for consumer in cfg.get('consumers', [['exhaust']]):
        rec = {'delivered': [], 'exc': None, 'consumer': consumer}
        rounds.append(rec)
        try:
            it = iter(h.ds.items()) if cfg.get('mode') == 'items' else iter(h.ds)
            if consumer[0] == 'exhaust':
                for x in it:
                    rec['delivered'].append(M._val(x))
            else:
                for _ in range(consumer[1]):
                    try:
                        rec['delivered'].append(M._val(next(it)))
                    except StopIteration:
                        break
                else:
                    it.close()
        except BaseException as e:      # noqa: BLE001
            rec['exc'] = type(e).__name__
        it = None
    return rounds


def main():
    repo = sys.argv[1]
    sys.path.insert(0, repo)
    os.environ['OMP_NUM_THREADS'] = os.environ['MKL_NUM_THREADS'] = '1'
    import logging
    logging.getLogger('lazy_dataset').setLevel(logging.CRITICAL)
    import warnings
    warnings.filterwarnings('ignore')
    cfgs = json.load(sys.stdin)
    out = []
    for cfg in cfgs:
        out.append(real_rounds(cfg))
    json.dump(out, sys.stdout)
    sys.stdout.flush()
    os._exit(0)        # do not wait for pools that a broken library left running


if __name__ == '__main__':
    main()
