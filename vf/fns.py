"""User functions handed to the library by the explorers.  They live in an importable module so that
pickle / dill serialise them by reference (process-pool models, from_dict 'pickle' storage)."""


def flat_ints(v):
    if isinstance(v, bool):
        return
    if isinstance(v, int):
        yield v
    elif isinstance(v, (list, tuple)):
        for x in v:
            yield from flat_ints(x)
    elif isinstance(v, dict):
        for x in v.values():
            yield from flat_ints(x)
    elif hasattr(v, 'item') and not isinstance(v, str):      # numpy scalar
        try:
            yield int(v)
        except Exception:
            return


def add10(v):
    if isinstance(v, bool) or isinstance(v, str):
        return v
    if isinstance(v, int):
        return v + 10
    if isinstance(v, list):
        return [add10(x) for x in v]
    if isinstance(v, tuple):
        return tuple(add10(x) for x in v)
    if isinstance(v, dict):
        return {k: add10(x) for k, x in v.items()}
    return v


def mul3(v):
    if isinstance(v, bool) or isinstance(v, str):
        return v
    if isinstance(v, int):
        return v * 3
    if isinstance(v, list):
        return [mul3(x) for x in v]
    if isinstance(v, tuple):
        return tuple(mul3(x) for x in v)
    if isinstance(v, dict):
        return {k: mul3(x) for k, x in v.items()}
    return v


def pair(v):
    return [v, v]


def is_odd(v):
    return sum(flat_ints(v)) % 2 == 1


def is_small(v):
    return sum(flat_ints(v)) % 4 < 2


def sortkey(v):
    """Sort key with ties."""
    return sum(flat_ints(v)) % 3


def sortkey_neg(v):
    return -sum(flat_ints(v))


def ident(v):
    return v


FNS = {f.__name__: f for f in (add10, mul3, pair, is_odd, is_small, sortkey, sortkey_neg, ident)}


class EqAny:
    """An example that compares equal to everything (like unittest.mock.ANY); identity is its tag."""

    def __init__(self, tag):
        self.tag = tag

    def __eq__(self, other):
        return True

    def __hash__(self):
        return 0

    def __repr__(self):
        return f'EqAny({self.tag})'


def special_values(name):
    """Unusual example types for the explorers (falsy values, arrays whose == is element-wise, equal-to-all)."""
    import numpy as np
    if name == 'falsy':
        return [None, 0, '', [], 0.0]
    if name == 'arrays':
        return [np.array([1, 2]), np.array([3, 4]), np.array([5, 6])]
    if name == 'eqany':
        return [EqAny(1), EqAny(2), EqAny(3)]
    raise ValueError(name)
