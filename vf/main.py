"""./check <id> [--tier quick|thorough] [--replay file]   (see /verif/check for the environment)."""
import argparse
import importlib
import json
import os
import sys
import time

HERE = os.path.dirname(os.path.abspath(__file__))
sys.path.insert(0, os.path.dirname(HERE))       # so that `import vf...` works

from vf import common  # noqa: E402


def main():
    ap = argparse.ArgumentParser()
    ap.add_argument('prop')
    ap.add_argument('--tier', default=os.environ.get('VERIF_TIER') or 'quick', choices=['quick', 'thorough'])
    ap.add_argument('--replay')
    ap.add_argument('--no-evidence', action='store_true')
    args = ap.parse_args()
    prop = args.prop.upper()
    t0 = time.time()
    try:
        common.bootstrap()
        mod = importlib.import_module(f'vf.checks.{prop.lower()}')
        if args.replay:
            data = json.load(open(args.replay))
            result = mod.replay(data)
        else:
            result = mod.run(args.tier)
    except common.WorkerCrash as e:
        # the unchanged library never takes the interpreter down; a change that does (e.g. closing a generator that
        # another thread is executing) is reported as a violation, with the work item as replay artefact
        path = common.write_replay(prop, {'property': prop, 'key': 'interpreter-crash', 'what': str(e),
                                          'replay': {'engine': 'crash', 'task': repr(e.task)}})
        print(f'VIOLATION property={prop} replay={path}')
        print('  key=interpreter-crash')
        print(f'  {str(e)[:600]}')
        sys.exit(1)
    except common.HarnessError as e:
        print(f'HARNESS-ERROR property={prop}: {e}', file=sys.stderr)
        sys.exit(2)

    shown_known = set()
    reported = {}
    for v in result.violations:
        if common.KNOWN.is_known(v.prop, v.key):
            if v.key not in shown_known:
                shown_known.add(v.key)
                print(f'KNOWN-FINDING: property={v.prop} {v.key}: {common.KNOWN.what(v.prop, v.key)}')
            continue
        reported.setdefault(v.key, v)
    for key, v in reported.items():
        path = args.replay or common.write_replay(v.prop, v.to_json())
        print(f'VIOLATION property={v.prop} replay={path}')
        print(f'  key={v.key}')
        print(f'  {v.what}')
    wall = time.time() - t0
    result.coverage.setdefault('known_findings_seen', sorted(shown_known))
    if not args.replay and not args.no_evidence:
        common.write_evidence(prop, args.tier, result, wall, len(reported))
    cov = result.coverage
    print(f'{prop} tier={args.tier} states={cov.get("states")} transitions={cov.get("transitions")} '
          f'violations={len(reported)} known={len(shown_known)} wall={wall:.1f}s')
    if result.harness_errors:
        for h in result.harness_errors[:5]:
            print('HARNESS-ERROR', h, file=sys.stderr)
        sys.exit(2)
    sys.exit(1 if reported else 0)


if __name__ == '__main__':
    main()
