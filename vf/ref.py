"""Reference interpreter: the eager list semantics of every combinator, written without importing
lazy_dataset.  A `Ref` is a plain list of (key, value) pairs plus the capabilities the documented
interface promises for that stage.  Every combinator has a boring list implementation and a
precondition; outside the precondition the library's behaviour is unspecified and is not judged
(`Refuse(expected=True)` means the library is *documented* to reject the construction).
"""
from fractions import Fraction

from vf import fns


class Err:
    """A value whose evaluation raises an exception of class `exc` (a name from EXC)."""
    __slots__ = ('exc',)

    def __init__(self, exc):
        self.exc = exc

    def __repr__(self):
        return f'Err({self.exc})'

    def __eq__(self, other):
        return isinstance(other, Err) and other.exc == self.exc

    def __hash__(self):
        return hash(('Err', self.exc))


class Refuse(Exception):
    """The construction is outside the documented domain.  expected=True: the library must reject it
    or is at least allowed to; it is never an explored state."""

    def __init__(self, reason, expected=True):
        super().__init__(reason)
        self.reason, self.expected = reason, expected


class Ref:
    __slots__ = ('items', 'sized', 'indexable', 'keyed', 'items_mode', 'lookup', 'finite', 'top',
                 'classes', 'ordered')

    def __init__(self, items, sized, indexable, keyed, items_mode, lookup, top, classes, finite=True,
                 ordered=True):
        self.items = list(items)          # [(key | None, value | Err)]
        self.sized = sized                # len(ds) is defined
        self.indexable = indexable        # ds[int] is defined
        self.keyed = keyed                # ds.keys() is defined
        self.items_mode = items_mode      # 'yes' | 'maybe' (pairs or a loud refusal) | 'undef' (clean
        #                                   ItemsNotDefined) | 'no' (not judged)
        self.lookup = lookup              # ds[str] is judged strictly
        self.finite = finite
        self.top = top                    # name of the op that built this stage
        self.classes = classes            # frozenset of op names used so far
        self.ordered = ordered

    def values(self):
        return [v for _, v in self.items]

    def keys(self):
        return [k for k, _ in self.items]

    def has_err(self):
        return any(isinstance(v, Err) for _, v in self.items)

    def n(self):
        return len(self.items)

    def derive(self, items, top, **kw):
        d = dict(sized=self.sized, indexable=self.indexable, keyed=self.keyed, items_mode=self.items_mode,
                 lookup=self.lookup, finite=self.finite, ordered=self.ordered)
        d.update(kw)
        return Ref(items, top=top, classes=self.classes | {top}, **d)


# --------------------------------------------------------------------------------------------------
# helpers

def lift(f, v):
    return v if isinstance(v, Err) else f(v)


def unique(keys):
    return len(set(keys)) == len(keys)


def py_index(n, i):
    """Python sequence index normalisation; None if out of range."""
    if -n <= i < n:
        return i % n if n else None
    return None


def perm_of(n, name):
    """The deterministic permutations used by the explorer-owned rng (see build.PermRng)."""
    idx = list(range(n))
    if name == 'rot1':
        return idx[1:] + idx[:1]
    if name == 'rev':
        return idx[::-1]
    if name == 'swap':
        for i in range(0, n - 1, 2):
            idx[i], idx[i + 1] = idx[i + 1], idx[i]
        return idx
    raise ValueError(name)


def array_split_bounds(n, k):
    """np.array_split(range(n), k) written out arithmetically."""
    q, r = divmod(n, k)
    sizes = [q + 1] * r + [q] * (k - r)
    out, s = [], 0
    for z in sizes:
        out.append((s, s + z))
        s += z
    return out


def intersperse_order(lengths):
    return [(d, j) for _, d, j in sorted(
        (Fraction(j + 1, n), d, j) for d, n in enumerate(lengths) for j in range(n))]


EXC_PARENTS = {
    'FilterException': ['FilterException', 'Exception', 'BaseException'],
    'SubFilter': ['SubFilter', 'FilterException', 'Exception', 'BaseException'],
    'ValueError': ['ValueError', 'Exception', 'BaseException'],
    'KeyError': ['KeyError', 'LookupError', 'Exception', 'BaseException'],
    'IndexError': ['IndexError', 'LookupError', 'Exception', 'BaseException'],
    'Exception': ['Exception', 'BaseException'],
    'NotImplementedError': ['NotImplementedError', 'RuntimeError', 'Exception', 'BaseException'],
    'TypeError': ['TypeError', 'Exception', 'BaseException'],
    'AssertionError': ['AssertionError', 'Exception', 'BaseException'],
    'RuntimeError': ['RuntimeError', 'Exception', 'BaseException'],
    'AttributeError': ['AttributeError', 'Exception', 'BaseException'],
}


def exc_matches(exc, caught):
    """caught: list of class names."""
    return any(c in EXC_PARENTS[exc] for c in caught)


# --------------------------------------------------------------------------------------------------
# sources

def source(spec):
    kind = spec[0]
    if kind == 'list':
        _, values, warranty = spec
        return Ref([(None, v) for v in values], True, True, False, 'undef', False, 'list',
                   frozenset({'list', 'w_' + warranty}))
    if kind == 'dict':
        _, pairs, warranty = spec
        return Ref([(k, v) for k, v in pairs], True, True, True, 'yes', True, 'dict',
                   frozenset({'dict', 'w_' + warranty}))
    if kind == 'special':
        _, name, keyed = spec
        vals = fns.special_values(name)
        if keyed:
            return Ref([(f'k{i}', v) for i, v in enumerate(vals)], True, True, True, 'yes', True, 'dict',
                       frozenset({'dict', 'special'}))
        return Ref([(None, v) for v in vals], True, True, False, 'undef', False, 'list', frozenset({'list', 'special'}))
    if kind == 'DictDataset':
        _, pairs = spec
        return Ref([(k, v) for k, v in pairs], True, True, True, 'yes', True, 'dict',
                   frozenset({'dict', 'raw'}))
    raise ValueError(spec)


def _select(ref, idx, top):
    """Common to every op that is `ds[index list]` underneath."""
    items = [ref.items[i] for i in idx]
    return ref.derive(items, top, sized=True, indexable=True, keyed=ref.keyed,
                      items_mode=_by_index_mode(ref), lookup=ref.lookup)


def _by_index_mode(ref):
    """items() of a stage that pairs keys() of its input with examples read by index: defined iff the input has
    keys; cleanly undefined (-> eager cache falls back to a list) iff the input never had any."""
    if ref.keyed:
        return 'yes'
    # keys() of a dataset that mixes keyed parts with duplicate keys and key-less parts fails irregularly
    return 'undef' if (ref.items_mode == 'undef' and all(k is None for k, _ in ref.items)) else 'no'


def _combine_modes(parts):
    modes = [p.items_mode for p in parts]
    if all(m == 'yes' for m in modes):
        return 'yes'
    if any(m == 'undef' for m in modes) and all(m in ('yes', 'undef') for m in modes):
        return 'undef'
    if all(m in ('yes', 'maybe') for m in modes):
        return 'maybe'
    return 'no'


def partner(ref, name):
    """Reference value of the partner dataset of a binary op, derived from the current state."""
    n = ref.n()
    if name == 'self':
        return ref
    if name == 'self_map':
        return apply(ref, ['map', 'mul3'])
    if name == 'self_rev':
        return apply(ref, ['slice', [None, None, -1]])
    if name == 'self_rev_map':
        return apply(apply(ref, ['slice', [None, None, -1]]), ['map', 'mul3'])
    if name == 'list_n':
        return source(['list', [100 + i for i in range(n)], 'pickle'])
    if name == 'list_2':
        return source(['list', [100, 101], 'pickle'])
    if name == 'dict_disjoint':
        return source(['dict', [[f'x{i}', 100 + i] for i in range(n)], 'pickle'])
    if name == 'dict_2':
        return source(['dict', [['y1', 201], ['y0', 200]], 'pickle'])
    if name == 'dict_same':
        if not ref.keyed or not unique(ref.keys()) or ref.has_err():
            raise Refuse('dict_same partner needs unique keys')
        ks = ref.keys()
        return source(['dict', [[k, 100 + i] for i, k in enumerate(reversed(ks))], 'pickle'])
    raise ValueError(name)


# --------------------------------------------------------------------------------------------------
# combinators

def apply(ref, op):  # noqa: C901  (one flat dispatch on purpose: boring is the point)
    name = op[0]
    if not ref.finite:
        raise Refuse('cycle() is terminal here')

    if name == 'map':
        f = fns.FNS[op[1]]
        return ref.derive([(k, lift(f, v)) for k, v in ref.items], 'map')

    if name == 'map_raise':
        _, exc, bad = op
        return ref.derive([(k, (Err(exc) if (not isinstance(v, Err) and _in(v, bad)) else v))
                           for k, v in ref.items], 'map')

    if name == 'parmap':
        f = fns.FNS[op[1]]
        return ref.derive([(k, lift(f, v)) for k, v in ref.items], 'parmap')

    if name == 'filter':
        _, fname, lazy = op
        f = fns.FNS[fname]
        if lazy:
            items = [(k, v) for k, v in ref.items if isinstance(v, Err) or f(v)]
            return ref.derive(items, 'filter', sized=False, indexable=False, keyed=False, lookup=False)
        if not ref.indexable:
            raise Refuse('eager filter needs an indexable input')
        if ref.has_err():
            raise Refuse('eager filter evaluates everything; an upstream error surfaces at build time')
        return _select(ref, [i for i, (_, v) in enumerate(ref.items) if f(v)], 'slice')

    if name == 'slice':
        if not ref.indexable:
            raise Refuse('slicing needs an indexable input')
        s = slice(*op[1])
        return _select(ref, list(range(ref.n()))[s], 'slice')

    if name == 'idx':
        if not ref.indexable:
            raise Refuse('slicing needs an indexable input')
        idx = []
        for i in op[1]:
            j = py_index(ref.n(), i)
            if j is None:
                raise Refuse('index out of range')
            idx.append(j)
        if not idx:
            raise Refuse('empty index list is unspecified')
        return _select(ref, idx, 'slice')

    if name == 'keys':
        if not ref.indexable or not ref.keyed:
            raise Refuse('key list needs keys')
        ks = ref.keys()
        if not ks or not unique(ks):
            raise Refuse('key list over duplicate / no keys is unspecified')
        want = {'one': [ks[0]], 'rev2': [ks[-1], ks[0]], 'all_rev': ks[::-1]}[op[1]]
        pos = {k: i for i, k in enumerate(ks)}
        return _select(ref, [pos[k] for k in want], 'slice')

    if name == 'batch':
        _, bs, drop_last = op
        items, vals = [], ref.values()
        for s in range(0, len(vals), bs):
            chunk = vals[s:s + bs]
            if len(chunk) < bs and drop_last:
                if any(isinstance(v, Err) for v in chunk):
                    raise Refuse('error inside a dropped tail batch is unspecified')
                continue
            errs = [v for v in chunk if isinstance(v, Err)]
            items.append((None, errs[0] if errs else list(chunk)))
        return ref.derive(items, 'batch', keyed=False, items_mode='undef', lookup=False)

    if name == 'unbatch':
        items = []
        for _, v in ref.items:
            if isinstance(v, Err):
                items.append((None, v))
            elif isinstance(v, (list, tuple)):
                items.extend((None, x) for x in v)
            else:
                raise Refuse('unbatch needs list/tuple examples')
        return ref.derive(items, 'unbatch', sized=False, indexable=False, keyed=False, items_mode='undef',
                          lookup=False)

    if name == 'items':
        if ref.items_mode != 'yes':
            raise Refuse('items() needs an input that defines items')
        items = [(k, (v if isinstance(v, Err) else (k, v))) for k, v in ref.items]
        return ref.derive(items, 'items', lookup=(ref.keyed and ref.indexable))

    if name == 'tile':
        r = op[1]
        if r < 1:
            raise Refuse('tile needs reps >= 1')
        if r == 1:
            return ref.derive(ref.items, ref.top)
        return _concat([ref] * r, 'concat')

    if name == 'cycle':
        if ref.n() == 0:
            raise Refuse('cycling an empty dataset never yields')
        return ref.derive(ref.items, 'cycle', sized=False, finite=False)

    if name == 'shuffle':
        if not (ref.sized and ref.indexable):
            raise Refuse('one-time shuffle needs len and indexing')
        return _select(ref, perm_of(ref.n(), op[1]), 'slice')

    if name == 'sort':
        _, keyname, reverse = op
        if not ref.indexable:
            raise Refuse('sort needs an indexable input')
        if keyname is None:
            if not ref.keyed:
                raise Refuse('key-less sort needs keys')
            ks = ref.keys()
            if not ks or not unique(ks):
                raise Refuse('key-less sort over no / duplicate keys is unspecified')
            pos = {k: i for i, k in enumerate(ks)}
            return _select(ref, [pos[k] for k in sorted(ks, reverse=bool(reverse))], 'slice')
        if ref.has_err():
            raise Refuse('sort evaluates everything')
        f = fns.FNS[keyname]
        sk = [f(v) for v in ref.values()]
        if ref.n() == 0:
            raise Refuse('sorting an empty selection builds an empty index list (unspecified)')
        if reverse and not unique(sk):
            raise Refuse('order among ties under reverse is not specified')
        order = sorted(range(ref.n()), key=lambda i: sk[i], reverse=bool(reverse))
        return _select(ref, order, 'slice')

    if name == 'shard':
        _, k, i = op
        if not (ref.sized and ref.indexable):
            raise Refuse('split needs len and indexing')
        if k < 1 or k > ref.n():
            raise Refuse('invalid shard count')
        a, b = array_split_bounds(ref.n(), k)[i]
        return _select(ref, list(range(a, b)), 'slice')

    if name == 'cache':
        if not ref.indexable:
            raise Refuse('cache needs an indexable input')
        return ref.derive(ref.items, 'cache', items_mode=_by_index_mode(ref), lookup=ref.keyed)

    if name == 'cache_eager':
        if not (ref.indexable or ref.ordered):
            raise Refuse('eager cache needs indexable or ordered')
        if ref.has_err():
            raise Refuse('eager cache evaluates everything')
        if ref.items_mode == 'yes':
            ks = ref.keys()
            if unique(ks):
                return Ref(ref.items, True, True, True, 'yes', True, 'dict', ref.classes | {'cache_eager'})
        elif ref.items_mode != 'undef':
            raise Refuse('eager cache over an input whose items() fails irregularly is unspecified')
        return Ref([(None, v) for v in ref.values()], True, True, False, 'undef', False, 'list',
                   ref.classes | {'cache_eager'})

    if name == 'catch':
        caught = op[1] if len(op) > 1 else ['FilterException']
        if not (ref.sized and ref.indexable):
            raise Refuse('catch iterates by index: needs len and indexing')
        items = [(k, v) for k, v in ref.items if not (isinstance(v, Err) and exc_matches(v.exc, caught))]
        return ref.derive(items, 'catch', sized=False, indexable=False, keyed=False,
                          items_mode=_by_index_mode(ref), lookup=False)

    if name in ('copy', 'copy_freeze'):
        return ref.derive(ref.items, ref.top)

    if name == 'prefetch':
        _, w, b = op[:3]
        if w == 1:
            mode = {'yes': 'yes', 'maybe': 'maybe'}.get(ref.items_mode, 'no')
            return ref.derive(ref.items, 'prefetch', indexable=False, keyed=False, items_mode=mode,
                              lookup=False)
        if not (ref.sized and ref.indexable):
            raise Refuse('multi-worker prefetch needs len and indexing')
        return ref.derive(ref.items, 'prefetch', indexable=False, keyed=False, items_mode='no', lookup=False)

    if name == 'prefetch_catch':
        _, w, b, spec = op
        caught = ['FilterException'] if spec is True else list(spec)
        if not (ref.sized and ref.indexable):
            raise Refuse('prefetch with catch_filter_exception reads its input by index')
        items = [(k, v) for k, v in ref.items if not (isinstance(v, Err) and exc_matches(v.exc, caught))]
        mode = _by_index_mode(ref) if w == 1 else 'no'
        return ref.derive(items, 'prefetch', sized=False, indexable=False, keyed=False, items_mode=mode, lookup=False)

    if name in ('concat', 'intersperse', 'zip', 'key_zip'):
        other = partner(ref, op[1])
        parts = [ref, other]
        if not other.finite:
            raise Refuse('infinite partner')
        if name == 'concat':
            return _concat(parts, 'concat')
        if name == 'intersperse':
            if not all(p.sized for p in parts) or any(p.n() == 0 for p in parts):
                raise Refuse('intersperse needs sized, non-empty parts')
            order = intersperse_order([p.n() for p in parts])
            base = _concat(parts, 'intersperse')
            base.items = [parts[d].items[j] for d, j in order]
            return base
        if name == 'zip':
            if not all(p.sized for p in parts) or len({p.n() for p in parts}) != 1:
                raise Refuse('zip needs equally sized parts')
            items = []
            for row in zip(*[p.values() for p in parts]):
                errs = [v for v in row if isinstance(v, Err)]
                items.append((None, errs[0] if errs else tuple(row)))
            return Ref(items, True, all(p.indexable for p in parts), False, 'undef', False, 'zip',
                       frozenset().union(*[p.classes for p in parts]) | {'zip'})
        if name == 'key_zip':
            if not all(p.keyed and p.sized for p in parts):
                raise Refuse('key_zip needs keys')
            if len({frozenset(p.keys()) for p in parts}) != 1:
                raise Refuse('key_zip needs equal key sets')
            maps = [dict(p.items) for p in parts]
            items = []
            for k in parts[0].keys():
                row = [m[k] for m in maps]
                errs = [v for v in row if isinstance(v, Err)]
                items.append((k, errs[0] if errs else tuple(row)))
            return Ref(items, True, all(p.indexable for p in parts), True, 'yes', True, 'key_zip',
                       frozenset().union(*[p.classes for p in parts]) | {'key_zip'})
    raise ValueError(op)


def _in(v, bad):
    try:
        return v in bad
    except Exception:
        return False


def _concat(parts, top):
    items = [it for p in parts for it in p.items]
    all_keyed = all(p.keyed for p in parts)
    keyed = all_keyed and unique([k for k, _ in items])
    mode = _combine_modes(parts)
    return Ref(items, all(p.sized for p in parts), all(p.indexable for p in parts), keyed, mode, keyed, top,
               frozenset().union(*[p.classes for p in parts]) | {top},
               ordered=all(p.ordered for p in parts))


def build(program):
    """Reference value of a whole program; raises Refuse if some step is outside the documented domain."""
    ref = source(program['source'])
    for op in program['ops']:
        ref = apply(ref, op)
    return ref
