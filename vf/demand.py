"""Reference demand model for C08: which user-function applications are needed for which output.

For every stage of a lazy pipeline the model keeps, per output item j,
  rand[j]  the ordered list of calls `(stage, repr(argument))` that `ds[j]` must make (None: not indexable)
  seq[j]   the ordered list of calls a sequential iterator makes when it advances from item j-1 to item j
and `tail`, the calls made when the exhausted iterator is asked once more.  Rules are compositional and
written against the reference values (vf.ref), never against lazy_dataset."""
from vf import fns
from vf import ref as R


class Dem:
    __slots__ = ('rand', 'seq', 'tail', 'ahead', 'slack', 'cids', 'keyrand', 'extra')

    def __init__(self, rand, seq, tail=(), ahead=0, slack=frozenset(), cids=None, keyrand=None):
        self.rand = rand            # list[list|None]
        self.seq = seq              # list[list]
        self.tail = list(tail)
        self.ahead = ahead          # how many items a buffering stage may run ahead
        self.slack = slack          # stages whose calls may happen early (they sit below a buffering stage)
        self.cids = cids            # per item: cache identity or None
        self.keyrand = keyrand      # per item: calls of ds[key] (None: same as rand)
        self.extra = []             # calls that only a stage running ahead may make (upper bound only)


def source(ref):
    n = ref.n()
    return Dem([[] for _ in range(n)], [[] for _ in range(n)])


def stages_of(dem):
    s = set()

    def walk(li):
        for c in li:
            if c[0] == 'C':
                walk(c[2])
            else:
                s.add(c[0])
    for li in list(dem.seq) + [dem.tail] + [r for r in dem.rand if r]:
        walk(li)
    return s


def flatten(calls, seen):
    """Calls actually made for a call tree, given the set of cache entries already filled (updated)."""
    out = []
    for c in calls:
        if c[0] == 'C':
            if c[1] in seen:
                continue
            out += flatten(c[2], seen)
            seen.add(c[1])
        else:
            out.append(c)
    return out


def _call(stage, v):
    return (stage, repr(v))


UNBOUNDED = 10 ** 6


def apply(dem, ref, op, cref, stage, pdem=None, pref=None):
    """dem/ref: demand and value of the input; cref: reference value of the output; pdem/pref: partner."""
    out = _apply(dem, ref, op, cref, stage, pdem, pref)
    out.extra = list(dem.extra) + (list(pdem.extra) if pdem is not None else [])
    if op[0] == 'zip':
        out.extra += list(pdem.tail)
    elif op[0] == 'intersperse':
        out.extra += list(dem.tail) + list(pdem.tail)
    elif op[0] == 'tile':
        out.extra = list(dem.extra) * op[1]
    if op[0] in ('batch', 'unbatch', 'filter', 'tile', 'concat', 'intersperse', 'zip', 'key_zip') and out.ahead > 0:
        # the read-ahead of a buffering stage below is counted in ITS items; above a stage that regroups items
        # or runs several iterators over it, no tight bound in output items is claimed (C07 decides the bound)
        out.ahead = UNBOUNDED
    return out


def _apply(dem, ref, op, cref, stage, pdem=None, pref=None):  # noqa: C901
    name = op[0]
    n = ref.n()
    if name in ('map', 'parmap'):
        rand = [None if r is None else r + [_call(stage, v)] for r, (_, v) in zip(dem.rand, ref.items)]
        seq = [s + [_call(stage, v)] for s, (_, v) in zip(dem.seq, ref.items)]
        out = Dem(rand, seq, dem.tail, dem.ahead, dem.slack, dem.cids)
        if name == 'parmap':
            out.ahead = dem.ahead + op[3] + 1
            out.slack = dem.slack | stages_of(out)
        return out
    if name == 'filter':        # lazy
        f = fns.FNS[op[1]]
        rand, seq, keyrand, pending = [], [], [], []
        for r, s, (_, v) in zip(dem.rand, dem.seq, ref.items):
            pending = pending + s + [_call(stage, v)]
            if f(v):
                seq.append(pending)
                rand.append(None)
                keyrand.append(None if r is None else r + [_call(stage, v)])
                pending = []
        return Dem(rand, seq, pending + dem.tail, dem.ahead, dem.slack, None, keyrand)
    if name in ('slice', 'idx', 'keys', 'shuffle', 'shard'):
        idx = _selection(ref, op)
        rand = [dem.rand[i] for i in idx]
        return Dem(rand, [list(r) for r in rand], [], dem.ahead, dem.slack,
                   None if dem.cids is None else [dem.cids[i] for i in idx])
    if name == 'batch':
        bs, drop_last = op[1], op[2]
        rand, seq, tail = [], [], list(dem.tail)
        for s in range(0, n, bs):
            members = list(range(s, min(s + bs, n)))
            sq = [c for i in members for c in dem.seq[i]]
            if len(members) < bs and drop_last:
                tail = sq + tail
                continue
            if len(members) < bs:
                # a partial last batch is only known to be complete when the input is exhausted
                sq = sq + tail
                tail = []
            seq.append(sq)
            rand.append(None if any(dem.rand[i] is None for i in members) else [c for i in members for c in dem.rand[i]])
        return Dem(rand, seq, tail, dem.ahead, dem.slack)
    if name == 'unbatch':
        seq, pending = [], []
        for s, (_, v) in zip(dem.seq, ref.items):
            pending = pending + s
            for j, _x in enumerate(v):
                seq.append(pending if j == 0 else [])
                pending = [] if j == 0 else pending
        return Dem([None] * len(seq), seq, pending + dem.tail, dem.ahead, dem.slack)
    if name in ('items', 'copy', 'copy_freeze'):
        return Dem(dem.rand, dem.seq, dem.tail, dem.ahead, dem.slack, dem.cids, dem.keyrand)
    if name == 'tile':
        r = op[1]
        return _concat([dem] * r, [ref] * r)
    if name == 'cache':
        cids = [(stage, j) for j in range(n)]
        rand = [[('C', (stage, j), list(r))] for j, r in enumerate(dem.rand)]      # one node per cached access
        return Dem(rand, [list(r) for r in rand], [], dem.ahead, dem.slack, cids)
    if name == 'catch':
        return Dem([None] * n, [list(r) for r in dem.rand], [], dem.ahead, dem.slack)
    if name == 'prefetch':
        w, b = op[1], op[2]
        if w == 1:
            out = Dem([None] * n, dem.seq, dem.tail, dem.ahead + b + 2, dem.slack)
        else:
            out = Dem([None] * n, [list(r) for r in dem.rand], [], dem.ahead + b + 1, dem.slack)
        out.slack = dem.slack | stages_of(out)
        return out
    if name == 'concat':
        return _concat([dem, pdem], [ref, pref])
    if name == 'intersperse':
        order = R.intersperse_order([ref.n(), pref.n()])
        parts = [dem, pdem]
        return Dem([parts[d].rand[j] for d, j in order], [parts[d].seq[j] for d, j in order], [],
                   max(dem.ahead, pdem.ahead), dem.slack | pdem.slack)
    if name == 'zip':
        rand = [None if (a is None or b is None) else a + b for a, b in zip(dem.rand, pdem.rand)]
        seq = [a + b for a, b in zip(dem.seq, pdem.seq)]
        return Dem(rand, seq, dem.tail, max(dem.ahead, pdem.ahead), dem.slack | pdem.slack)
    if name == 'key_zip':
        pos = {k: i for i, (k, _) in enumerate(pref.items)}
        rand = []
        for j, (k, _) in enumerate(ref.items):
            a = dem.rand[j] if dem.keyrand is None or dem.keyrand[j] is None else dem.keyrand[j]
            i = pos[k]
            b = pdem.rand[i] if pdem.keyrand is None or pdem.keyrand[i] is None else pdem.keyrand[i]
            rand.append(None if (a is None or b is None) else a + b)
        return Dem(rand, [list(r) for r in rand], [], max(dem.ahead, pdem.ahead), dem.slack | pdem.slack)
    raise R.Refuse(f'no demand rule for {name}')


def _selection(ref, op):
    name = op[0]
    n = ref.n()
    if name == 'slice':
        return list(range(n))[slice(*op[1])]
    if name == 'idx':
        return [R.py_index(n, i) for i in op[1]]
    if name == 'keys':
        ks = ref.keys()
        want = {'one': [ks[0]], 'rev2': [ks[-1], ks[0]], 'all_rev': ks[::-1]}[op[1]]
        pos = {k: i for i, k in enumerate(ks)}
        return [pos[k] for k in want]
    if name == 'shuffle':
        return R.perm_of(n, op[1])
    if name == 'shard':
        a, b = R.array_split_bounds(n, op[1])[op[2]]
        return list(range(a, b))
    raise ValueError(op)


def _concat(dems, refs):
    rand, seq, cids, pending = [], [], [], []
    any_cids = any(d.cids is not None for d in dems)
    for d in dems:
        for j in range(len(d.seq)):
            seq.append(pending + d.seq[j] if j == 0 else d.seq[j])
            if j == 0:
                pending = []
            rand.append(d.rand[j])
            cids.append(None if d.cids is None else d.cids[j])
        pending = pending + list(d.tail)
    return Dem(rand, seq, pending, max(d.ahead for d in dems), frozenset().union(*[d.slack for d in dems]),
               cids if any_cids else None)
