"""Builds real lazy_dataset objects from the same program descriptions the reference interpreter reads.
Only public API is used (factory functions and Dataset methods)."""
import numpy as np

from vf import fns
from vf import ref as R


class PermRng:
    """Explorer-owned random source for the seeded one-time shuffle: whatever method the library calls,
    the answer is the fixed permutation `R.perm_of(n, name)`."""

    def __init__(self, name):
        self.name = name
        self.calls = 0

    def shuffle(self, x):
        self.calls += 1
        p = R.perm_of(len(x), self.name)
        x[:] = np.asarray(x)[p] if isinstance(x, np.ndarray) else [x[i] for i in p]

    def permutation(self, n):
        self.calls += 1
        if isinstance(n, (int, np.integer)):
            return np.array(R.perm_of(int(n), self.name), dtype=int)
        n = np.asarray(n)
        return n[R.perm_of(len(n), self.name)]


class UserRaise:
    """map function raising a chosen exception class on chosen values (picklable by value)."""

    def __init__(self, exc, bad):
        self.exc, self.bad = exc, list(bad)

    def __call__(self, v):
        if R._in(v, self.bad):
            raise exc_class(self.exc)(f'user:{v!r}')
        return v

    def __repr__(self):
        return f'UserRaise({self.exc},{self.bad})'


SubFilter = None     # created on first use as a subclass of lazy_dataset.FilterException


def exc_class(name):
    import lazy_dataset
    global SubFilter
    if name == 'FilterException':
        return lazy_dataset.FilterException
    if name == 'SubFilter':
        if SubFilter is None:
            SubFilter = type('SubFilter', (lazy_dataset.FilterException,), {'__module__': __name__})
        return SubFilter
    return {'ValueError': ValueError, 'KeyError': KeyError, 'IndexError': IndexError, 'Exception': Exception,
            'NotImplementedError': NotImplementedError, 'TypeError': TypeError, 'AssertionError': AssertionError,
            'RuntimeError': RuntimeError, 'AttributeError': AttributeError}[name]


def source(spec):
    import lazy_dataset
    kind = spec[0]
    if kind == 'list':
        _, values, warranty = spec
        return lazy_dataset.new(list(values), immutable_warranty=warranty) if warranty != 'wu' \
            else lazy_dataset.core.from_list(list(values), immutable_warranty='wu')
    if kind == 'dict':
        _, pairs, warranty = spec
        return lazy_dataset.new({k: v for k, v in pairs}, immutable_warranty=warranty)
    if kind == 'special':
        vals = fns.special_values(spec[1])
        if spec[2]:
            return lazy_dataset.new({f'k{i}': v for i, v in enumerate(vals)})
        return lazy_dataset.new(list(vals))
    if kind == 'DictDataset':
        return lazy_dataset.core.DictDataset({k: v for k, v in spec[1]})
    raise ValueError(spec)


def partner(ds, ref, name):
    """Real partner dataset for a binary op (mirrors R.partner)."""
    if name == 'self':
        return ds
    if name == 'self_map':
        return ds.map(fns.mul3)
    if name == 'self_rev':
        return ds[::-1]
    pref = R.partner(ref, name)
    # the remaining partners are fresh sources; rebuild them from the reference value
    if pref.keyed:
        return source(['dict', [[k, v] for k, v in pref.items], 'pickle'])
    return source(['list', pref.values(), 'pickle'])


def apply(ds, ref, op):  # noqa: C901
    """Apply one combinator to the real dataset `ds` whose reference value is `ref`."""
    import lazy_dataset
    name = op[0]
    if name == 'map':
        return ds.map(fns.FNS[op[1]])
    if name == 'map_raise':
        return ds.map(UserRaise(op[1], op[2]))
    if name == 'parmap':
        return ds.map(fns.FNS[op[1]], num_workers=op[2], buffer_size=op[3], backend=(op[4] if len(op) > 4 else 't'))
    if name == 'filter':
        return ds.filter(fns.FNS[op[1]], lazy=op[2])
    if name == 'slice':
        return ds[slice(*op[1])]
    if name == 'idx':
        kind = op[2] if len(op) > 2 else 'list'
        idx = list(op[1])
        if kind == 'tuple':
            return ds[tuple(idx)]
        if kind == 'ndarray':
            return ds[np.array(idx)]
        if kind == 'npints':
            return ds[[np.int64(i) for i in idx]]
        return ds[idx]
    if name == 'keys':
        ks = ref.keys()
        want = {'one': [ks[0]], 'rev2': [ks[-1], ks[0]], 'all_rev': ks[::-1]}[op[1]]
        return ds[want] if op[1] != 'rev2' else ds[tuple(want)]
    if name == 'batch':
        return ds.batch(op[1], drop_last=op[2])
    if name == 'unbatch':
        return ds.unbatch()
    if name == 'items':
        return ds.items()
    if name == 'tile':
        return ds.tile(op[1])
    if name == 'cycle':
        return ds.cycle()
    if name == 'shuffle':
        return ds.shuffle(False, rng=PermRng(op[1]))
    if name == 'sort':
        _, keyname, reverse = op
        if keyname is None:
            return ds.sort(reverse=bool(reverse))
        return ds.sort(fns.FNS[keyname], reverse=bool(reverse))
    if name == 'shard':
        return ds.shard(op[1], op[2])
    if name == 'cache':
        return ds.cache()
    if name == 'cache_eager':
        return ds.cache(lazy=False)
    if name == 'catch':
        if len(op) > 1:
            excs = [exc_class(n) for n in op[1]]
            return ds.catch(excs[0] if len(excs) == 1 else tuple(excs))
        return ds.catch()
    if name == 'copy':
        return ds.copy()
    if name == 'copy_freeze':
        return ds.copy(freeze=True)
    if name == 'prefetch':
        return ds.prefetch(op[1], op[2], backend=(op[3] if len(op) > 3 else 't'))
    if name == 'prefetch_catch':
        spec = op[3]
        if spec is not True:
            excs = [exc_class(n) for n in spec]
            spec = excs[0] if len(excs) == 1 else tuple(excs)
        return ds.prefetch(op[1], op[2], catch_filter_exception=spec)
    if name in ('concat', 'intersperse', 'zip', 'key_zip'):
        other = partner(ds, ref, op[1])
        if name == 'concat':
            return ds.concatenate(other)
        if name == 'intersperse':
            return ds.intersperse(other)
        if name == 'zip':
            return ds.zip(other)
        return ds.key_zip(other)
    raise ValueError(op)
