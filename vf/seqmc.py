"""E1: explicit-state search over pipeline programs.

A state is (real dataset object, reference value), reached from a source by a sequence of combinator
applications.  The complete tree of programs over an alphabet is enumerated to a depth; in every state the
invariant "the observation of the real object equals the observation predicted from the reference" is
evaluated (vf.observe).  Work is partitioned by (source, first op) over forked workers."""
import collections
import json

from vf import build as B
from vf import common
from vf import observe as O
from vf import ref as R

# --------------------------------------------------------------------------------------------------
# alphabet (ordered simplest first, so that the first counterexample of a kind is also the shortest)

SOURCES = [
    ['list', [3, 1, 2], 'pickle'],
    ['dict', [['b', 3], ['a', 1], ['c', 2]], 'pickle'],
    ['list', [], 'pickle'],
    ['dict', [], 'pickle'],
    ['list', [5], 'pickle'],
    ['dict', [['a', 5]], 'pickle'],
    ['list', [4, 1, 3, 2], 'copy'],
    ['dict', [['d', 4], ['b', 1], ['a', 3], ['c', 2]], 'copy'],
    ['list', [2, 1, 2], 'pickle'],
    ['list', [3, 1, 2], 'wu'],
    ['DictDataset', [['b', 3], ['a', 1], ['c', 2]]],
    ['list', [], 'wu'],
    ['special', 'falsy', False],
    ['special', 'arrays', True],
    ['special', 'eqany', False],
    ['special', 'falsy', True],
]

UNARY = [
    ['map', 'add10'],
    ['filter', 'is_odd', True],
    ['slice', [1, None, None]],
    ['batch', 2, False],
    ['items'],
    ['idx', [0, 0, -1]],
    ['copy'],
    ['cache'],
    ['prefetch', 1, 2],
    ['slice', [None, None, -1]],
    ['slice', [None, 0, None]],
    ['filter', 'is_odd', False],
    ['unbatch'],
    ['map', 'pair'],
    ['keys', 'rev2'],
    ['sort', 'sortkey', False],
    ['shard', 2, 1],
    ['tile', 2],
    ['cycle'],
    ['catch'],
    ['slice', [None, -1, None]],
    ['slice', [None, None, 2]],
    ['slice', [5, None, None]],
    ['idx', [1], 'tuple'],
    ['idx', [1, 0], 'ndarray'],
    ['idx', [-1, 0], 'npints'],
    ['keys', 'one'],
    ['keys', 'all_rev'],
    ['batch', 1, False],
    ['batch', 3, False],
    ['batch', 2, True],
    ['tile', 1],
    ['tile', 3],
    ['shuffle', 'rot1'],
    ['shuffle', 'swap'],
    ['sort', 'sortkey_neg', True],
    ['sort', None, False],
    ['sort', None, True],
    ['shard', 2, 0],
    ['shard', 3, 1],
    ['cache_eager'],
    ['copy_freeze'],
    ['prefetch', 1, 1],
    ['prefetch', 2, 2],
    ['prefetch', 2, 3],
    ['parmap', 'add10', 2, 2],
    ['map_raise', 'FilterException', [1, 11, 5]],
    ['map_raise', 'ValueError', [2, 12]],
    ['catch', ['ValueError']],
    ['prefetch_catch', 1, 2, True],
    ['prefetch_catch', 2, 2, ['FilterException']],
    ['prefetch_catch', 1, 1, ['ValueError', 'KeyError']],
]

BINARY = [[kind, p] for kind in ('concat', 'intersperse', 'zip', 'key_zip')
          for p in ('self', 'self_map', 'list_n', 'dict_disjoint', 'dict_same', 'self_rev', 'list_2', 'dict_2')]

CORE = [
    ['map', 'add10'],
    ['filter', 'is_odd', True],
    ['slice', [1, None, None]],
    ['batch', 2, False],
    ['items'],
    ['idx', [0, 0, -1]],
    ['cache'],
    ['prefetch', 1, 2],
    ['slice', [None, None, -1]],
    ['slice', [None, 0, None]],
    ['keys', 'rev2'],
    ['tile', 2],
    ['catch'],
    ['concat', 'self_map'],
    ['concat', 'dict_disjoint'],
    ['intersperse', 'list_2'],
    ['zip', 'self'],
    ['key_zip', 'dict_same'],
    ['unbatch'],
    ['sort', None, False],
    ['shard', 2, 1],
    ['cache_eager'],
    ['map_raise', 'FilterException', [1, 11, 5]],
    ['prefetch_catch', 1, 2, True],
]

FULL = UNARY + BINARY

KIND_PROP = {
    'iter': 'C01', 'iter-again': 'C01', 'iter-cold': 'C01', 'iter-after-aborted-iteration': 'C01', 'iter-two-iterators-in-flight': 'C01', 'copy': 'C01', 'copy-freeze': 'C01', 'parent-changed': 'C01',
    'build-refused': 'C01',
    'len': 'C02', 'indexable-lost': 'C02', 'iter-after-index': 'C02', 'index': 'C02', 'index-negative': 'C02',
    'index-out-of-range-returns': 'C02', 'index-out-of-range-wrong-error': 'C02', 'index-error-lost': 'C02',
    'keys': 'C03', 'keys-empty': 'C03', 'items': 'C03', 'items-again': 'C03', 'items-wrong-pairs': 'C03',
    'items-again-wrong-pairs': 'C03', 'lookup': 'C03', 'absent-key-returns-value': 'C03',
}


def stage_name(ref, source_spec, nops):
    if nops == 0:
        if source_spec[0] == 'special':
            return f'special[{source_spec[1]}]'
        return f'{source_spec[0]}[{source_spec[2] if len(source_spec) > 2 else "raw"}]'
    return ref.top


def absent_keys(source_spec):
    ks = ['zz', '']
    if source_spec[0] in ('dict', 'DictDataset'):
        ks += [k for k, _ in source_spec[1]]
    if source_spec[0] == 'special':
        ks += ['k0', 'k1', 'k2']
    return ks + ['x0', 'y0']


class Explorer:
    def __init__(self, prop, what, depth, alphabet):
        self.prop, self.what, self.depth, self.alphabet = prop, what, depth, alphabet
        self.stats = collections.Counter()
        self.violations = []
        self.samples = []
        self.outcomes = set()

    def check_state(self, ds, ref, program, taint, tags=frozenset()):
        """Evaluate the invariant in one state; returns (ok to descend, taint for the children)."""
        common.gc_tick()
        self.stats['states'] += 1
        if ref.n() > 1:
            self.stats['states_nontrivial'] += 1
        mism = O.observe(ds, ref, self.what, absent_keys(program['source']))
        self.outcomes.add(hash((tuple(O.canon(v) for v in ref.values()), ref.sized, ref.indexable, ref.keyed)))
        return self.judge(mism, ref, program, taint, tags)

    def judge(self, mism, ref, program, taint, tags=frozenset()):
        ok = True
        stage = stage_name(ref, program['source'], len(program['ops']))
        for kind, detail in mism:
            kind, _, sub = kind.partition(':')
            prop = KIND_PROP[kind]
            if prop != self.prop:
                continue
            if taint:
                # a known finding was reported at a lower stage of this very path; what is built on top of
                # it inherits that defect and is attributed to it (other paths reach this stage untainted)
                self.stats['inherited_known'] += 1
                continue
            key = f'{kind}/{stage}' + (f'/{sub}' if sub else '') + ''.join('@' + t for t in sorted(tags))
            v = common.Violation(prop, key, f'{describe(program)}: {detail}',
                                 {'engine': 'seqmc', 'program': program, 'what': sorted(self.what)})
            self.violations.append(v.to_json())
            if common.KNOWN.is_known(prop, key):
                taint = taint | {kind}
            else:
                ok = False
        return ok, taint

    def dfs(self, ds, ref, program, depth, taint, first_ops=None, tags=frozenset()):
        for op in (first_ops if first_ops is not None else self.alphabet):
            self.stats['transitions'] += 1
            try:
                cref = R.apply(ref, op)
            except R.Refuse as r:
                self.stats['outside_domain'] += 1
                continue
            cprog = {'source': program['source'], 'ops': program['ops'] + [op]}
            ctags = tags | structural_tags(ref, op)
            try:
                with O.deadline(10):
                    cds = B.apply(ds, ref, op)
            except BaseException as e:      # noqa: BLE001
                self.stats['states'] += 1
                ok, _ = self.judge([('build-refused', f'building the stage raised {O.exc_name(e)}: '
                                                      f'{str(e)[:80]!r}')], cref, cprog, taint, ctags)
                continue
            ok, ctaint = self.check_state(cds, cref, cprog, taint, ctags)
            if 'iter' in self.what and ref.finite:
                # building and observing the child must not alter the parent
                vals, exc = O.expected_stream(ref.values())
                out = []
                O.cmp_stream('parent-changed', O.run_iter(lambda: iter(ds), ref.n() + 3), vals, exc, out)
                if out:
                    ok2, _ = self.judge(out, cref, cprog, taint, ctags)
                    ok = ok and ok2
            if 'iter' in self.what and ref.finite and cref.finite and ok:
                # the same step on a cold lineage: parent and child are built afresh, the child is the FIRST thing
                # that is iterated, then the parent (state that a stage fills lazily must not depend on who reads first)
                out = []
                try:
                    with O.deadline(10):
                        cold = build_program(program)
                        cold_child = B.apply(cold, ref, op)
                except BaseException as e:      # noqa: BLE001
                    out.append(('build-refused', f'building the same program a second time raised {O.exc_name(e)}'))
                else:
                    cvals, cexc = O.expected_stream(cref.values())
                    if O.cmp_stream('iter-cold', O.run_iter(lambda: iter(cold_child), cref.n() + 3), cvals, cexc, out):
                        vals, exc = O.expected_stream(ref.values())
                        O.cmp_stream('parent-changed', O.run_iter(lambda: iter(cold), ref.n() + 3), vals, exc, out)
                    del cold, cold_child
                if out:
                    # judged with the taint of the child state: a known finding reported for this very program covers
                    # its cold twin as well
                    ok2, _ = self.judge(out, cref, cprog, ctaint, ctags)
                    ok = ok and ok2
            if len(self.samples) < 3 and depth == self.depth:
                self.samples.append({'program': cprog, 'reference': [O.canon(v) for v in cref.values()],
                                     'keys': cref.keys() if cref.keyed else None})
            if ok and depth < self.depth:
                self.dfs(cds, cref, cprog, depth + 1, ctaint, tags=ctags)


def build_program(program):
    """A fresh, never observed build of `program`."""
    ref = R.source(program['source'])
    ds = B.source(program['source'])
    for op in program['ops']:
        ds, ref = B.apply(ds, ref, op), R.apply(ref, op)
    return ds


def structural_tags(ref, op):
    """Names of call sites that known findings are anchored to (see known_findings.json): a tag is set when
    `op` is applied to a state of the given shape and is inherited by everything built on top."""
    if op[0] == 'items' and ref.indexable and not ref.keyed:
        return frozenset({'items-over-duplicate-keys'})
    return frozenset()


def describe(program):
    s = program['source']
    src = f'{s[0]}({json.dumps(s[1])}{"," + str(s[2]) if len(s) > 2 else ""})'
    return src + ''.join('.' + op[0] + '(' + ','.join(json.dumps(a) for a in op[1:]) + ')' for op in program['ops'])


def _task(args):
    prop, what, depth, alphabet, source_spec, first_op = args
    ex = Explorer(prop, what, depth, alphabet)
    program = {'source': source_spec, 'ops': []}
    ref = R.source(source_spec)
    try:
        ds = B.source(source_spec)
    except BaseException as e:          # noqa: BLE001
        if first_op is None:
            ex.stats['states'] += 1
            ex.judge([('build-refused', f'building the source raised {O.exc_name(e)}: {str(e)[:80]!r}')],
                     ref, program, frozenset())
        return ex.stats, ex.violations, ex.samples, ex.outcomes
    if first_op is None:
        ex.check_state(ds, ref, program, frozenset())
    else:
        # the source is observed silently so that lazily filled state matches a replay along the path
        quiet = Explorer(prop, what, depth, alphabet)
        ok, taint = quiet.check_state(ds, ref, program, frozenset())
        if ok and depth >= 1:
            ex.dfs(ds, ref, program, 1, taint, first_ops=[first_op])
    return ex.stats, ex.violations, ex.samples, ex.outcomes


def explore(prop, what, depth, alphabet, sources, result, label):
    tasks = [(prop, what, depth, alphabet, s, None) for s in sources]
    if depth >= 1:
        tasks += [(prop, what, depth, alphabet, s, op) for s in sources for op in alphabet]
    total = collections.Counter()
    outcomes = set()
    samples = []
    for stats, viols, smp, outc in common.pmap(_task, tasks, timeout=1500):
        total.update(stats)
        outcomes |= outc
        samples.extend(smp)
        result.violations.extend(common.Violation.from_json(v) for v in viols)
    for k, v in total.items():
        result.coverage[k] = result.coverage.get(k, 0) + v
    result.coverage.setdefault('runs', []).append(
        {'label': label, 'depth': depth, 'alphabet_ops': len(alphabet), 'sources': len(sources),
         'states': total['states'], 'transitions': total['transitions'],
         'outside_domain': total['outside_domain'], 'distinct_reference_values': len(outcomes)})
    result.coverage.setdefault('samples', []).extend(common.sample(samples, 3))
    return total


def shortest_first(result):
    """Report the shortest program per finding key."""
    result.violations.sort(key=lambda v: (len(v.replay.get('program', {}).get('ops', [])), v.key))


def replay_program(prop, what, program):
    """Re-run one program without the explorer: rebuild along the path, observing every prefix state the
    way the search did, and report the mismatches of the final state."""
    ex = Explorer(prop, set(what), 0, [])
    ref = R.source(program['source'])
    ds = B.source(program['source'])
    prog = {'source': program['source'], 'ops': []}
    taint = frozenset()
    tags = frozenset()
    mism_final = []
    for i, op in enumerate(program['ops'] + [None]):
        last = (i == len(program['ops']))
        mism = O.observe(ds, ref, set(what), absent_keys(program['source']))
        if last:
            mism_final = mism
            break
        cref = R.apply(ref, op)
        tags = tags | structural_tags(ref, op)
        try:
            cds = B.apply(ds, ref, op)
        except BaseException as e:      # noqa: BLE001
            prog = {'source': program['source'], 'ops': prog['ops'] + [op]}
            mism_final = [('build-refused', f'{O.exc_name(e)}: {str(e)[:80]!r}')]
            ref = cref
            break
        prog = {'source': program['source'], 'ops': prog['ops'] + [op]}
        ds, ref = cds, cref
    ex.judge(mism_final, ref, prog, taint, tags)
    return ex.violations
