"""Plumbing shared by all checks: locating the repository under test, violations / known findings,
replay artefacts, evidence files, and a fork-based work pool.

Nothing in here knows about a particular property."""
import collections
import fnmatch
import hashlib
import json
import multiprocessing
import os
import signal
import sys
import time
import traceback

VERIF = os.path.dirname(os.path.dirname(os.path.abspath(__file__)))
REPO = os.environ.get('VERIF_REPO', '/repo')
NPROC = int(os.environ.get('VERIF_NPROC', '16'))
SEED = int(os.environ.get('VERIF_SEED', '0') or 0)


class HarnessError(Exception):
    """Something is wrong with the checking machinery itself (exit code 2, never a violation)."""


def bootstrap():
    """Make `import lazy_dataset` resolve to the working tree under REPO and nothing else."""
    if sys.path[0] != REPO:
        sys.path.insert(0, REPO)
    for k in ('OMP_NUM_THREADS', 'MKL_NUM_THREADS'):
        os.environ[k] = '1'
    import faulthandler
    try:
        faulthandler.register(signal.SIGUSR1, all_threads=True, chain=False)     # kill -USR1 <pid> dumps all stacks
    except Exception:       # noqa: BLE001
        pass
    import warnings
    warnings.filterwarnings('ignore')
    import logging
    logging.getLogger('lazy_dataset').setLevel(logging.CRITICAL)
    import lazy_dataset
    root = os.path.realpath(REPO)
    if not os.path.realpath(lazy_dataset.__file__).startswith(root + os.sep):
        raise HarnessError(f'lazy_dataset imported from {lazy_dataset.__file__}, expected under {root}')
    return lazy_dataset


class Violation:
    """One property violation: `key` names the failing observation kind and call site (used to match
    known findings), `what` is a one line human description, `replay` is a JSON-able dict that
    `./check <id> --replay` can re-run without the explorer."""

    def __init__(self, prop, key, what, replay):
        self.prop, self.key, self.what, self.replay = prop, key, what, replay

    def to_json(self):
        return {'property': self.prop, 'key': self.key, 'what': self.what, 'replay': self.replay}

    @staticmethod
    def from_json(d):
        return Violation(d['property'], d['key'], d['what'], d['replay'])


class Known:
    """known_findings.json is read-only at run time.  status 'known' suppresses exactly the violations
    carrying that (property, key); status 'fixed' suppresses nothing."""

    def __init__(self, path=None):
        path = path or os.path.join(VERIF, 'known_findings.json')
        self.entries = []
        if os.path.exists(path):
            self.entries = json.load(open(path))['findings']
        self._known = {(e['property'], e['key']): e for e in self.entries if e.get('status') == 'known'}

    def _match(self, prop, key):
        e = self._known.get((prop, key))
        if e is not None:
            return e
        for (p, pat), e in self._known.items():
            if p == prop and ('*' in pat) and fnmatch.fnmatchcase(key, pat):
                return e
        return None

    def is_known(self, prop, key):
        return self._match(prop, key) is not None

    def what(self, prop, key):
        return self._match(prop, key)['what']


KNOWN = Known()


def write_replay(prop, data):
    d = os.path.join(VERIF, 'replays', prop)
    os.makedirs(d, exist_ok=True)
    blob = json.dumps(data, sort_keys=True, default=repr)
    digest = hashlib.sha1(blob.encode()).hexdigest()[:12]
    path = os.path.join(d, digest + '.json')
    with open(path, 'w') as f:
        f.write(blob)
    return path


class Result:
    """What a check run returns.  `coverage` must hold measured numbers only."""

    def __init__(self):
        self.violations = []          # list[Violation]
        self.coverage = {}
        self.assumptions = []
        self.harness_errors = []

    def merge_counts(self, other_counts):
        for k, v in other_counts.items():
            if isinstance(v, (int, float)):
                self.coverage[k] = self.coverage.get(k, 0) + v


def _worker_entry(args):
    fn, task, timeout = args
    if timeout:
        signal.signal(signal.SIGALRM, _alarm)
        signal.alarm(int(timeout))
    try:
        return ('ok', fn(task))
    except BaseException:
        return ('err', f'task={task!r}\n' + traceback.format_exc())
    finally:
        if timeout:
            signal.alarm(0)


def _alarm(signum, frame):
    raise HarnessError('work item exceeded its wall-clock budget')


def pmap(fn, tasks, nproc=None, timeout=None, chunksize=1):
    """Run fn over tasks in forked workers; yields results (unordered).  A crash or timeout inside a
    work item is a harness error, not a violation."""
    tasks = list(tasks)
    nproc = min(nproc or NPROC, max(1, len(tasks)))
    if nproc <= 1 or os.environ.get('VERIF_SERIAL'):
        for t in tasks:
            st, r = _worker_entry((fn, t, timeout))
            if st == 'err':
                raise HarnessError(r)
            yield r
        return
    ctx = multiprocessing.get_context('fork')
    limit = timeout or 3000
    done = 0
    crashed = False
    _SEEN_PIDS.clear()
    with ctx.Pool(nproc, maxtasksperchild=None) as pool:
        # the watchdog lives in the parent (work items use SIGALRM / ITIMER_REAL themselves for per-call deadlines)
        if chunksize > 1:
            chunks = [tasks[i:i + chunksize] for i in range(0, len(tasks), chunksize)]
            it = pool.imap_unordered(_chunk_entry, [(fn, c) for c in chunks])
        else:
            it = pool.imap_unordered(_worker_entry, [(fn, t, None) for t in tasks])
        waited = 0.0
        _SEEN_PIDS[id(pool)] = frozenset(p.pid for p in pool._pool)
        while True:
            try:
                st, r = it.next(2.0)
                waited = 0.0
            except StopIteration:
                break
            except multiprocessing.TimeoutError:
                waited += 2.0
                if any(p.exitcode not in (None, 0) for p in pool._pool) or _lost_worker(pool, nproc):
                    crashed = True
                    pool.terminate()
                    break
                if waited >= limit:
                    pool.terminate()
                    raise HarnessError(f'no work item finished within {limit} s: a work item hangs')
                continue
            if st == 'err':
                pool.terminate()
                raise HarnessError(r)
            if st == 'chunk':
                done += len(r)
                yield from r
            else:
                done += 1
                yield r
    if crashed:
        # a worker process died (the interpreter crashed inside the code under test): find the work item by running
        # the items one at a time, each in a process of its own
        for t in tasks:
            parent, child = ctx.Pipe(False)
            proc = ctx.Process(target=_isolated_entry, args=(child, fn, t))
            proc.start()
            child.close()
            proc.join(limit)
            if proc.is_alive():
                proc.kill()
                raise HarnessError(f'work item {t!r} hangs')
            if proc.exitcode != 0:
                raise WorkerCrash(t, proc.exitcode)
        raise HarnessError('a worker process died, but no single work item reproduces it')


_SEEN_PIDS = {}


def _lost_worker(pool, nproc):
    """multiprocessing.Pool silently replaces a worker that died; a changed set of worker pids reveals it."""
    pids = frozenset(p.pid for p in pool._pool)
    first = _SEEN_PIDS.setdefault(id(pool), pids)
    return pids != first


def _isolated_entry(conn, fn, task):
    st, r = _worker_entry((fn, task, None))
    os._exit(0 if st == 'ok' else 3)


class WorkerCrash(Exception):
    """The interpreter died (segmentation fault / fatal error) while a work item ran the code under test."""

    def __init__(self, task, exitcode):
        super().__init__(f'interpreter died with exit code {exitcode} in work item {task!r}')
        self.task, self.exitcode = task, exitcode


def _chunk_entry(args):
    fn, chunk = args
    out = []
    for t in chunk:
        st, r = _worker_entry((fn, t, None))
        if st == 'err':
            return st, r
        out.append(r)
    return 'chunk', out


_GC = {'n': 0}


def gc_tick(every=200):
    """Called once per explored state by explorers that run library threads.  Automatic cyclic garbage collection
    is switched off and replaced by collections at this safe point (main thread, between states): CPython 3.12 can
    deadlock when the collector finalises an unfinished prefetching generator (whose finally-block joins a thread)
    while some thread is inside threading's shutdown-lock bookkeeping."""
    import gc
    if _GC['n'] == 0:
        gc.disable()
    _GC['n'] += 1
    if _GC['n'] % every == 0:
        gc.collect()


class Stats(collections.Counter):
    """Additive counters that survive the trip back from a worker process."""


def sample(seq, k, seed=None):
    """Pick k evidence samples deterministically from a sequence (VERIF_SEED only rotates which)."""
    seq = list(seq)
    if len(seq) <= k:
        return seq
    s = SEED if seed is None else seed
    step = max(1, len(seq) // k)
    off = s % step
    return [seq[(off + i * step) % len(seq)] for i in range(k)]


def write_evidence(prop, tier, result, wall_s, n_violations):
    cov = dict(result.coverage)
    ev = {
        'property_id': prop,
        'tier': tier,
        'seed': SEED,
        'level': 'model_checking',
        'coverage': cov,
        'assumptions': list(result.assumptions),
        'wall_s': round(wall_s, 3),
        'violations': n_violations,
    }
    d = os.path.join(VERIF, 'evidence')
    os.makedirs(d, exist_ok=True)
    path = os.path.join(d, prop + '.json')
    tmp = path + '.tmp'
    with open(tmp, 'w') as f:
        json.dump(ev, f, indent=1, sort_keys=True, default=repr)
    os.replace(tmp, path)
    return path
