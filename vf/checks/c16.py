"""C16: combinators obey their algebraic laws.

For every E1 state (program over the E1 alphabet up to a depth) every law is instantiated with all its
parameters ON THE REAL OBJECT of that state; both sides are built with the library and their full
observations are compared on what both sides define.  No reference interpreter takes part in the
comparison (it only tells which programs are inside the documented domain), so this is evidence
independent of C01-C03."""
import collections
import itertools

import numpy as np

from vf import build as B
from vf import common
from vf import fns
from vf import observe as O
from vf import ref as R
from vf import seqmc

STATE_OPS = [op for op in seqmc.UNARY if op[0] not in ('cycle', 'prefetch', 'parmap')] + \
    [['concat', 'self_map'], ['concat', 'dict_disjoint'], ['concat', 'list_2'], ['intersperse', 'list_2'],
     ['zip', 'self_map'], ['key_zip', 'dict_same'], ['prefetch', 1, 2]]
CORE_OPS = [['map', 'add10'], ['filter', 'is_odd', True], ['slice', [1, None, None]], ['batch', 2, False], ['items'],
            ['idx', [0, 0, -1]], ['cache'], ['slice', [None, None, -1]], ['keys', 'rev2'], ['tile', 2],
            ['concat', 'self_map'], ['zip', 'self_map'], ['unbatch'], ['sort', None, False], ['shard', 2, 1],
            ['intersperse', 'list_2'], ['map', 'pair']]
SLICES = [slice(1, None), slice(None, -1), slice(None, None, 2), slice(None, None, -1), slice(None, 0), slice(2, None),
          slice(-2, None), slice(None, None, -2)]


def obs(ds, n_hint):
    """Reference-free observation of a real dataset."""
    cap = n_hint + 4
    out = {'iter': O.run_iter(lambda: iter(ds), cap)}
    out['iter2'] = O.run_iter(lambda: iter(ds), cap)
    ln = O.impl_len(ds)
    out['len'] = ln
    if O.impl_indexable(ds) and ln is not None:
        out['index'] = [O.get_index(ds, i)[:2] for i in range(-ln - 2, ln + 2)]
    try:
        out['keys'] = [str(k) for k in ds.keys()]
    except BaseException:       # noqa: BLE001
        pass
    try:
        it = ds.items()
        r = O.run_iter(lambda: iter(it), cap)
        if r[1] is None:
            out['items'] = r
    except BaseException:       # noqa: BLE001
        pass
    return out


def obs_list(values):
    vals = [O.canon(v) for v in values]
    n = len(vals)
    return {'iter': (vals, None), 'iter2': (vals, None), 'len': n,
            'index': [('val', vals[i]) if -n <= i < n else ('exc', 'IndexError') for i in range(-n - 2, n + 2)]}


def differ(a, b, only=None):
    for k in ('iter', 'iter2', 'len', 'index', 'keys', 'items'):
        if only is not None and k not in only:
            continue
        if k in a and k in b and a[k] is not None and b[k] is not None:
            x, y = a[k], b[k]
            if k == 'index':
                # out-of-range: both must raise (the class is judged by C02); in range: equal
                x = [(t if t[0] == 'val' else ('exc',)) for t in x]
                y = [(t if t[0] == 'val' else ('exc',)) for t in y]
            if x != y:
                return k, x, y
    return None


def batch_fn(f):
    return lambda b: [f(x) for x in b]


def compose(g, f):
    return lambda x: g(f(x))


def laws(ds, ref):
    """Yields (law name, params, build_lhs, build_rhs, restrict-to)."""
    import lazy_dataset
    n = ref.n()
    plain = not ref.has_err() and ref.finite
    if not plain:
        return
    f, g = fns.add10, fns.mul3
    for bs in (1, 2, 3, 4):
        yield 'batch-unbatch-identity', {'n': bs}, (lambda bs=bs: ds.batch(bs).unbatch()), (lambda: ds), {'iter', 'iter2'}
        # with drop_last the round trip is the identity on the examples batch keeps: the same pipeline with a stage in
        # between, and (for indexable datasets) the slice of the kept examples
        yield 'batch-drop-last-unbatch', {'n': bs}, (lambda bs=bs: ds.batch(bs, drop_last=True).unbatch()), \
            (lambda bs=bs: ds.batch(bs, drop_last=True).map(fns.ident).unbatch()), {'iter', 'iter2'}
        if ref.indexable:
            yield 'batch-drop-last-unbatch-slice', {'n': bs}, (lambda bs=bs: ds.batch(bs, drop_last=True).unbatch()), \
                (lambda bs=bs: ds[:(n // bs) * bs]), {'iter', 'iter2'}
    yield 'map-map-composition', {}, (lambda: ds.map(f).map(g)), (lambda: ds.map(compose(g, f))), None
    for r in (1, 2, 3):
        yield 'tile-is-concatenate', {'r': r}, (lambda r=r: ds.tile(r)), \
            (lambda r=r: lazy_dataset.concatenate(*([ds] * r))), None
    yield 'map-over-concatenate', {}, (lambda: ds.concatenate(ds.map(g)).map(f)), \
        (lambda: ds.map(f).concatenate(ds.map(g).map(f))), None
    for bs in (1, 2, 3):
        yield 'map-over-batch', {'n': bs}, (lambda bs=bs: ds.batch(bs).map(batch_fn(f))), \
            (lambda bs=bs: ds.map(f).batch(bs)), None
        yield 'batch-map-method', {'n': bs}, (lambda bs=bs: ds.batch(bs).batch_map(f)), \
            (lambda bs=bs: ds.map(f).batch(bs)), None
    if ref.indexable and ref.sized:
        for k in range(1, n + 1):
            yield 'concatenate-split-identity', {'k': k}, (lambda k=k: lazy_dataset.concatenate(ds.split(k))), \
                (lambda: ds), None
        for s in SLICES:
            yield 'map-over-slice', {'s': str(s)}, (lambda s=s: ds.map(f)[s]), (lambda s=s: ds[s].map(f)), None
            yield 'filter-over-slice', {'s': str(s)}, (lambda s=s: ds[s].filter(fns.is_odd)), \
                (lambda s=s: ds[s].filter(fns.is_odd, lazy=False)), {'iter', 'iter2'}
        for s1, s2 in itertools.product(SLICES[:6], repeat=2):
            vals = ref.values()[s1][s2]
            yield 'nested-slices', {'s1': str(s1), 's2': str(s2)}, (lambda s1=s1, s2=s2: ds[s1][s2]), \
                (lambda vals=vals: ('list', vals)), {'iter', 'iter2', 'len', 'index'}
        for p in ('rot1', 'swap', 'rev'):
            yield 'map-over-shuffle', {'perm': p}, (lambda p=p: ds.map(f).shuffle(False, rng=B.PermRng(p))), \
                (lambda p=p: ds.shuffle(False, rng=B.PermRng(p)).map(f)), None
        yield 'map-over-cache', {}, (lambda: ds.cache().map(f)), (lambda: ds.map(f).cache()), None
        if n > 0:
            sk = [fns.sortkey_neg(f(v)) for v in ref.values()]
            if len(set(sk)) == len(sk):
                yield 'map-over-sort', {}, (lambda: ds.map(f).sort(fns.sortkey_neg)), \
                    (lambda: ds.sort(compose(fns.sortkey_neg, f)).map(f)), None
        yield 'filter-lazy-eager', {}, (lambda: ds.filter(fns.is_small)), (lambda: ds.filter(fns.is_small, lazy=False)), \
            {'iter', 'iter2'}
        # filter commutes with order-preserving selection
        for s in (slice(1, None), slice(None, None, 2), slice(None, -1)):
            keep = [i for i in range(n)][s]
            pos = [j for j, i in enumerate(i for i in range(n) if fns.is_small(ref.values()[i])) ]
            sel_then_filter = [i for i in keep if fns.is_small(ref.values()[i])]
            passing = [i for i in range(n) if fns.is_small(ref.values()[i])]
            idx = [passing.index(i) for i in sel_then_filter]
            if idx:
                yield 'filter-commutes-with-selection', {'s': str(s)}, \
                    (lambda s=s: ds[s].filter(fns.is_small, lazy=False)), \
                    (lambda idx=idx: ds.filter(fns.is_small, lazy=False)[idx]), None


def check_state(ds, ref, program, st, viols, tags=frozenset()):
    n = ref.n()
    for name, params, lhs, rhs, only in laws(ds, ref):
        st['transitions'] += 1
        try:
            with O.deadline(20):
                a_ds = lhs()
                b_ds = rhs()
                a = obs(a_ds, 3 * n + 6)
                b = obs_list(b_ds[1]) if isinstance(b_ds, tuple) else obs(b_ds, 3 * n + 6)
        except R.Refuse:
            continue
        except BaseException as e:      # noqa: BLE001
            st['law_not_applicable'] += 1
            continue
        st['law_instances'] += 1
        d = differ(a, b, only)
        if d:
            key = f'law/{name}/{d[0]}' + ''.join('@' + t for t in sorted(tags))
            if key not in viols:
                viols[key] = common.Violation(
                    'C16', key, f'{seqmc.describe(program)} law {name} {params}: {d[0]} differs: {d[1]} vs {d[2]}',
                    {'engine': 'laws', 'program': program, 'law': name, 'params': params}).to_json()


def _task(args):
    source, first, depth, alphabet = args
    st = collections.Counter()
    viols = {}
    samples = []

    def rec(ds, ref, program, d, tags=frozenset()):
        st['states'] += 1
        common.gc_tick(50)
        check_state(ds, ref, program, st, viols, tags)
        if d == depth and len(samples) < 1:
            samples.append({'program': program, 'laws_checked': st['law_instances']})
        if d >= depth:
            return
        for op in alphabet:
            try:
                cref = R.apply(ref, op)
            except R.Refuse:
                continue
            if cref.has_err() or not cref.finite:
                continue
            try:
                cds = B.apply(ds, ref, op)
            except BaseException:       # noqa: BLE001  (decided by C01)
                continue
            rec(cds, cref, {'source': program['source'], 'ops': program['ops'] + [op]}, d + 1,
                tags | seqmc.structural_tags(ref, op))

    ref = R.source(source)
    try:
        ds = B.source(source)
    except BaseException:       # noqa: BLE001
        return st, [], []
    prog = {'source': source, 'ops': []}
    if first is None:
        st['states'] += 1
        check_state(ds, ref, prog, st, viols)
    else:
        try:
            cref = R.apply(ref, first)
            if not cref.has_err() and cref.finite:
                cds = B.apply(ds, ref, first)
                rec(cds, cref, {'source': source, 'ops': [first]}, 1, seqmc.structural_tags(ref, first))
        except (R.Refuse, Exception):       # noqa: BLE001
            pass
    return st, list(viols.values()), samples


def random_stage_laws(tier):
    """Laws at states that contain a seeded per-epoch reshuffle / local shuffle: both sides are built from
    equally seeded fresh pipelines and compared epoch by epoch (a reshuffling dataset is not repeatable, so the
    E1 states above cannot contain one)."""
    import lazy_dataset
    f, g = fns.add10, fns.mul3
    viols, count = [], 0

    def base(kind, seed, n, mid):
        ds = lazy_dataset.new({f'k{i}': i for i in range(n)})
        rng = np.random.RandomState(seed)
        ds = ds.shuffle(True, rng=rng) if kind == 'reshuffle' else ds.shuffle(True, rng=rng, buffer_size=2)
        if mid == 'map':
            ds = ds.map(g)
        elif mid == 'batch':
            ds = ds.batch(2)
        elif mid == 'filter':
            ds = ds.filter(fns.is_small)
        return ds

    laws_r = {
        'tile-is-concatenate-2': (lambda d: d.tile(2), lambda d: lazy_dataset.concatenate(d, d)),
        'tile-is-concatenate-3': (lambda d: d.tile(3), lambda d: lazy_dataset.concatenate(d, d, d)),
        'batch-unbatch-identity': (lambda d: d.batch(2).unbatch(), lambda d: d),
        'map-map-composition': (lambda d: d.map(f).map(g), lambda d: d.map(compose(g, f))),
        'map-over-batch': (lambda d: d.batch(2).map(batch_fn(f)), lambda d: d.map(f).batch(2)),
        'map-over-concatenate': (lambda d: d.concatenate(d).map(f), lambda d: d.map(f).concatenate(d.map(f))),
        'catch-is-identity': (lambda d: d.catch(), lambda d: d),
        'copy-is-identity': (lambda d: d.copy(), lambda d: d),
    }
    for kind in ('reshuffle', 'local'):
        for n in (0, 1, 3, 4):
            for mid in (None, 'map', 'batch', 'filter'):
                for seed in range(3 if tier == 'quick' else 10):
                    for name, (lhs, rhs) in laws_r.items():
                        if name == 'catch-is-identity' and (kind == 'local' or mid in ('batch', 'filter')):
                            continue
                        if mid == 'batch' and name in ('map-map-composition', 'map-over-batch', 'map-over-concatenate'):
                            continue
                        count += 1
                        try:
                            a, b = lhs(base(kind, seed, n, mid)), rhs(base(kind, seed, n, mid))
                            ea = [O.run_iter(lambda: iter(a), 4 * n + 4) for _ in range(3)]
                            eb = [O.run_iter(lambda: iter(b), 4 * n + 4) for _ in range(3)]
                        except BaseException as e:      # noqa: BLE001
                            continue
                        if ea != eb:
                            viols.append(common.Violation(
                                'C16', f'law/{name}/over-{kind}',
                                f'{kind}(seed={seed}) n={n} then {mid}: epochs of both sides differ: {ea} vs {eb}',
                                {'engine': 'random-laws', 'kind': kind, 'n': n}))
    return count, viols


def run(tier):
    res = common.Result()
    if tier == 'quick':
        plans = [(1, STATE_OPS, seqmc.SOURCES), (2, CORE_OPS, seqmc.SOURCES[:6])]
    else:
        plans = [(2, STATE_OPS, seqmc.SOURCES), (3, CORE_OPS, seqmc.SOURCES[:6])]
    total = collections.Counter()
    samples = []
    for depth, alphabet, sources in plans:
        tasks = [(s, None, depth, alphabet) for s in sources] + [(s, op, depth, alphabet) for s in sources for op in alphabet]
        for st, viols, smp in common.pmap(_task, tasks, timeout=2500):
            total.update(st)
            samples += smp
            res.violations.extend(common.Violation.from_json(v) for v in viols)
    # map distributes over concatenation / tile / slice at a position that is followed by a 2-worker prefetch: the
    # workers evaluate the stages concurrently (every source line a scheduling point, 1 preemption)
    from vf.checks import _e2, c04
    comp = [c for c in c04.composed(tier) if c['n'] == 2 and c['pre'][0] in ('tile2', 'concat_map', 'slice_rev', 'sort')]
    _e2.run_matrix('C16', 'oracle_values', [(c, 'L', 1) for c in comp], res,
                   'law positions followed by prefetch(2, 2): mode L, preemption bound 1', cap=40000)
    cnt, v = random_stage_laws(tier)
    total['law_instances'] += cnt
    total['transitions'] += cnt
    seen = set()
    for x in v:
        if x.key not in seen:
            seen.add(x.key)
            res.violations.append(x)
    res.violations.sort(key=lambda v: (len(v.replay.get('program', {}).get('ops', [])), v.key))
    total['states'] += res.coverage.get('states', 0)
    total['transitions'] += res.coverage.get('transitions', 0)
    res.coverage.update(
        states=total['states'], transitions=total['transitions'], traces_validated_against_impl=total['law_instances'],
        law_instances=total['law_instances'], exhaustive=True, samples=common.sample(samples, 3) + res.coverage.get('samples', []),
        rule=f'states = programs over {len(STATE_OPS)} ops to depth {plans[0][0]} (and a {len(CORE_OPS)}-op core alphabet to depth '
             f'{plans[1][0]}); transitions = law instances attempted at a state (15 laws x their parameters: batch sizes 1..4, '
             f'k = 1..len, r = 1..3, 8 slices and all pairs of 6 slices, 3 permutations); both sides are real pipelines')
    res.assumptions = ['the reference interpreter is used only to enumerate programs inside the documented domain',
                       'observations are compared on what both sides of a law define (iteration always)']
    if total['law_instances'] < 2000:
        res.harness_errors.append('non-vacuity floor: fewer than 2000 law instances')
    return res


def replay(data):
    r = data['replay']
    res = common.Result()
    if r.get('engine') == 'schedmc':
        from vf.checks import _e2
        return _e2.replay('C16', data)
    if r.get('engine') == 'random-laws':
        cnt, v = random_stage_laws('quick')
        res.violations = v[:1]
        res.coverage.update(states=1, transitions=cnt)
        return res
    program = r['program']
    ref = R.source(program['source'])
    ds = B.source(program['source'])
    for op in program['ops']:
        ds2 = B.apply(ds, ref, op)
        ref = R.apply(ref, op)
        ds = ds2
    st = collections.Counter()
    viols = {}
    tags = frozenset()
    r2 = R.source(program['source'])
    for op in program['ops']:
        tags = tags | seqmc.structural_tags(r2, op)
        r2 = R.apply(r2, op)
    check_state(ds, ref, program, st, viols, tags)
    res.violations = [common.Violation.from_json(v) for v in viols.values()]
    res.coverage.update(states=1, transitions=st['transitions'])
    return res
