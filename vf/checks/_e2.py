"""Shared driver of the schedule-exploration checks C04-C07: configuration matrices, sequential
expectations, oracles on executions, evidence."""
import collections
import itertools
import json

from vf import common
from vf import sched as S
from vf import schedmc as M

THREAD_BACKENDS = ['t']
PROCESS_BACKENDS = ['mp', 'dill_mp', 'multiprocessing', 'concurrent_mp']

EXC_PARENTS = {
    'FilterException': {'FilterException', 'Exception', 'BaseException'},
    'SubFilter': {'SubFilter', 'FilterException', 'Exception', 'BaseException'},
    'ValueError': {'ValueError', 'Exception', 'BaseException'},
    'KeyError': {'KeyError', 'LookupError', 'Exception', 'BaseException'},
    'UserError': {'UserError', 'Exception', 'BaseException'},
    'UserBaseError': {'UserBaseError', 'BaseException'},
    'IndexError': {'IndexError', 'LookupError', 'Exception', 'BaseException'},
    'AssertionError': {'AssertionError', 'Exception', 'BaseException'},
    'NotImplementedError': {'NotImplementedError', 'RuntimeError', 'Exception', 'BaseException'},
    'TypeError': {'TypeError', 'Exception', 'BaseException'},
}


def caught_names(cfg):
    c = cfg.get('catch')
    if c is None:
        return None
    return {'FilterException'} if c is True else set(c)


def expected_stream(cfg):
    """Sequential semantics of the configured pipeline: list of delivered values and the exception name
    that ends the stream (or None)."""
    n = cfg['n']
    fail_fn = M.normalise_fail(cfg.get('fail_fn'))
    fail_src = M.normalise_fail(cfg.get('fail_src'))
    caught = caught_names(cfg)
    out = []
    if (fail_fn or fail_src) and cfg.get('pre'):
        # failing examples below regrouping stages: the stages are applied to (value | error) elements, a batch fails
        # with the first error among its members; the catch of the prefetch stage sees the regrouped elements
        elems = []
        for i in range(n):
            exc = fail_src.get(i) or fail_fn.get(i)
            elems.append(('e', exc) if exc is not None else ('v', 100 + i))
        for st in cfg['pre']:
            if isinstance(st, list) and st[0] == 'batch':
                grouped = []
                for j in range(0, len(elems), st[1]):
                    chunk = elems[j:j + st[1]]
                    errs = [x for t, x in chunk if t == 'e']
                    grouped.append(('e', errs[0]) if errs else ('v', [x for _, x in chunk]))
                elems = grouped
            elif st == 'slice_rev':
                elems = elems[::-1]
            else:
                raise ValueError(f'no error semantics for stage {st}')
        for t, x in elems:
            if t == 'e':
                if caught is not None and (EXC_PARENTS[x] & caught):
                    continue
                return out, x
            out.append(x)
        return out, None
    for i in range(n):
        exc = fail_src.get(i) or fail_fn.get(i)
        if exc is not None:
            if caught is not None and (EXC_PARENTS[exc] & caught):
                continue
            return out, exc
        v = 100 + i
        pl = cfg.get('payload')
        if pl == 'ndarray':
            v = ['ndarray', [v, v + 1]]
        elif pl == 'eq_any':
            v = ['eq_any', v]
        elif pl == 'none':
            v = None if v % 2 else v
        out.append([f'k{i}', v] if cfg.get('mode') == 'items' else v)
    return out, None


def apply_pre(cfg, vals):
    """Sequential semantics of the extra stages a configuration puts between the mapped function and prefetch."""
    n = len(vals)
    for st in cfg.get('pre', []):
        if st == 'tile2':
            vals = vals + vals
        elif st == 'concat_map':
            vals = vals + [v + 1000 for v in vals]
        elif st == 'slice_rev':
            vals = vals[::-1]
        elif st == 'sort':
            vals = sorted(vals, reverse=True)
        elif st == 'intersperse_map':
            a, b = vals, [v + 1000 for v in vals]
            order = sorted([((j + 1) / len(p), d, j) for d, p in enumerate((a, b)) for j in range(len(p))])
            vals = [(a, b)[d][j] for _, d, j in order]
        elif st in ('zip_map', 'key_zip_map'):
            vals = [[v, v + 1000] for v in vals]
        elif st == 'items':
            vals = [[f'k{i}', v] for i, v in enumerate(vals)]
        elif st == 'cache':
            pass
        elif isinstance(st, list) and st[0] == 'batch':
            vals = [vals[i:i + st[1]] for i in range(0, len(vals), st[1])]
        else:
            raise ValueError(st)
    return vals


def expected_round(cfg, consumer):
    vals, exc = expected_stream(cfg)
    if cfg.get('pre') and not (cfg.get('fail_fn') or cfg.get('fail_src')):
        vals = apply_pre(cfg, vals)
    for st in cfg.get('post', []):
        if st == 'tile2':
            vals, exc = (vals + vals, None) if exc is None else (vals, exc)
    if consumer[0] == 'exhaust':
        return vals, exc
    if consumer[0] == 'two-iterators':
        return [vals, vals], exc
    k = consumer[1]
    if k <= len(vals):
        return vals[:k], None
    return vals, exc


def path_of(cfg):
    if cfg['entry'] == 'parmap':
        return 'parmap'
    if cfg['entry'] == 'cache_threads':
        return 'threads-on-' + cfg.get('kind', 'cache')
    return 'prefetch-single' if (cfg['w'] == 1 and cfg.get('backend', 't') == 't') else 'prefetch-pool'


def sched_problem(ex):
    if ex.error is None:
        return None
    return type(ex.error).__name__, str(ex.error)[:200]


# --------------------------------------------------------------------------------------------------
# oracles: each returns [(kind, detail)]

def classify(rec, vals, exc):
    d, e = rec['delivered'], rec['exc']
    if e != exc:
        if exc is None:
            return f'unexpected-error:{e}'
        if e is None:
            return 'error-swallowed'
        return f'wrong-error:{e}'
    if exc is not None:
        return 'examples-before-error-lost' if len(d) < len(vals) else 'wrong-stream-before-error'
    if len(d) < len(vals):
        return 'examples-lost'
    if sorted(map(json.dumps, d)) == sorted(map(json.dumps, vals)):
        return 'reordered'
    if len(d) > len(vals):
        return 'extra-examples'
    return 'wrong-values'


def oracle_values(cfg, ex):
    """C04 / C06: what the consumer receives equals the sequential pipeline (values, order, error)."""
    prob = sched_problem(ex)
    if prob:
        return [(prob[0], prob[1])]
    for rec in ex.rounds:
        if 'expected' in rec:       # differential: the plain pipeline with an equally seeded generator (random stages)
            vals, exc = rec['expected'], None
        else:
            vals, exc = expected_round(cfg, rec['consumer'])
        if rec['delivered'] == vals and rec['exc'] == exc:
            continue
        if cfg.get('mode') == 'items' and path_of(cfg) != 'parmap' and not rec['delivered'] \
                and rec['exc'] in ('NotImplementedError', 'ItemsNotDefined'):
            continue        # key iteration through a prefetch stage may be refused loudly (C03)
        return [(classify(rec, vals, exc),
                 f'consumer {rec["consumer"]}: delivered {rec["delivered"]} then {rec["exc"]} '
                 f'{rec.get("exc_args", "")}; the sequential pipeline gives {vals} then {exc}')]
    return []


def oracle_stop(cfg, ex):
    """C05: clean termination wherever the consumer stops."""
    out = []
    prob = sched_problem(ex)
    if prob:
        return [(prob[0], prob[1])]
    back = early = shut = False
    for ev in ex.log:
        name = ev[0]
        if name == 'round':
            back = early = shut = False
        elif name == 'stop':
            early = True
        elif name == 'shutdown-begin':
            shut = True
        elif name == 'returned':
            back = True
        elif name in ('pull', 'start', 'end') and back:
            return [('user-code-after-return', f'{name}({ev[2]}) ran after control was back with the consumer')]
        elif name == 'claim' and shut and early:
            return [('started-after-shutdown', f'future {ev[2]} had not started when the executor began to shut '
                                               f'down after an early stop, and was executed instead of cancelled')]
    for name, exc in ex.thread_excs:
        return [(f'background-thread-died:{exc}', f'logical thread {name} ended with {exc}')]
    return out


def oracle_once(cfg, ex):
    """C10 (thread-prefetch clause): the upstream of a shared cache runs at most once per example, and every
    access returns the cached value."""
    prob = sched_problem(ex)
    if prob:
        return [(prob[0], prob[1])]
    n = cfg['n']
    want = [100 + i for i in range(n)] * 2
    for rec in ex.rounds:
        if rec['delivered'] != want or rec['exc'] is not None:
            return [('wrong-stream', f'delivered {rec["delivered"]} then {rec["exc"]}; expected {want}')]
    starts = collections.Counter(ev[2] for ev in ex.log if ev[0] == 'start')
    twice = sorted(p for p, c in starts.items() if c > 1)
    if twice:
        return [('computed-twice-by-concurrent-workers', f'examples {twice} were computed {[starts[p] for p in twice]} '
                                                         f'times: two workers missed the cache for the same example')]
    return []


def oracle_profile(cfg, ex):
    """C20 behind thread prefetch: transparent, and the shared counters add up on every schedule."""
    out = oracle_values(cfg, ex)
    if out:
        return out
    n = cfg['n']
    fail = M.normalise_fail(cfg.get('fail_fn'))
    for rec in ex.rounds:
        counts = rec.get('profile_counts')
        if counts is None:
            return [('no-counters', 'the profiling wrapper exposes no counters')]
        if not fail:
            if any(c != [n, 0] for c in counts):
                return [('wrong-hits', f'per-stage [hits, failed] {counts}; every stage delivered {n} examples, none failed')]
        else:
            p = min(fail)
            top, rest = counts[0], counts[1:]
            if top != [p + 1, 1]:
                return [('wrong-hits', f'prefetch stage [hits, failed] = {top}; {p} examples and one failure were fetched')]
            if rest and (rest[0][1] != 1 or not (p + 1 <= rest[0][0] <= n)):
                return [('wrong-failed-hits', f'mapped stage [hits, failed] = {rest[0]}; exactly one application failed')]
    return []


def oracle_isolated(cfg, ex):
    """C09 under concurrency: whatever other threads did to the examples they were handed, every later read
    returns the pristine example."""
    prob = sched_problem(ex)
    if prob:
        return [(prob[0], prob[1])]
    for rec in ex.rounds:
        if rec['exc'] is not None:
            return [(f'read-raises:{rec["exc"]}', 'reading the cached example back raised')]
        if not all(rec['delivered']):
            return [('stored-data-changed-by-another-thread',
                     f'after {cfg["w"]} threads fetched and mutated example {cfg.get("index", 0)} concurrently, reads by '
                     f'[+i, -i, key, iteration, copy] equal the pristine example: {rec["delivered"]}; got {rec.get("values")}')]
    return []


def oracle_bound(cfg, ex):
    """C07: read-ahead bounded by buffer_size at every prefix of the event log."""
    prob = sched_problem(ex)
    if prob:
        return [(prob[0], prob[1])]
    b = cfg['b']
    path = path_of(cfg)
    pulled = started = delivered = 0
    mx_pull = mx_start = 0
    for ev in ex.log:
        name = ev[0]
        if name == 'round':
            pulled = started = delivered = 0
        elif name == 'pull':
            pulled += 1
        elif name == 'start':
            started += 1
        elif name == 'deliver':
            delivered += 1
        if path == 'prefetch-single':
            ahead_pull, ahead_start = started - delivered, 0
        else:
            ahead_pull, ahead_start = pulled - delivered, started - delivered
        mx_pull, mx_start = max(mx_pull, ahead_pull), max(mx_start, ahead_start)
        if ahead_pull > b + 2:
            return [('pull-ahead-exceeds-bound', f'{ahead_pull} source examples pulled beyond those delivered '
                                                 f'(buffer_size={b}, bound {b + 2})')]
        if ahead_start > b:
            return [('start-ahead-exceeds-bound', f'{ahead_start} function applications started beyond those '
                                                  f'delivered (buffer_size={b})')]
    return []


def maxima(cfg, ex):
    b = cfg['b']
    path = path_of(cfg)
    pulled = started = delivered = 0
    mp = ms = 0
    for ev in ex.log:
        name = ev[0]
        if name == 'pull':
            pulled += 1
        elif name == 'start':
            started += 1
        elif name == 'deliver':
            delivered += 1
        if path == 'prefetch-single':
            mp = max(mp, started - delivered)
        else:
            mp, ms = max(mp, pulled - delivered), max(ms, started - delivered)
    return mp, ms


# --------------------------------------------------------------------------------------------------

def finding_key(kind, cfg):
    parts = [kind, path_of(cfg), cfg.get('backend', 't')]
    if cfg.get('mode') == 'items':
        parts.append('items')
    if cfg.get('catch') is not None:
        parts.append('catch')
    if cfg.get('fail_src'):
        parts.append('source-error')
    if len(cfg.get('consumers', [1])) > 1:
        parts.append('second-iteration')
    if cfg.get('pre'):
        parts.append('+'.join(str(x) for x in cfg['pre']))
    if cfg.get('copy_first'):
        parts.append('via-copy')
    if cfg.get('payload'):
        parts.append('payload-' + cfg['payload'])
    if any(c[0] == 'two-iterators' for c in cfg.get('consumers', [])):
        parts.append('two-iterators')
    return '/'.join(parts)


def _task(args):
    prop, oracle_name, cfg, mode, bound, cap = args
    oracle = globals()[oracle_name]
    st, viols, outcomes = M.explore(cfg, oracle, mode, bound, cap)
    sample = None
    if outcomes:
        o = next(iter(outcomes))
        sample = {'cfg': cfg, 'mode': mode, 'bound': bound, 'executions': st['executions'],
                  'complete_schedules': st['complete'], 'outcome': json.loads(o)}
    return cfg, mode, bound, dict(st), viols, sample


def run_matrix(prop, oracle_name, jobs, result, label, cap=60000):
    """jobs: list of (cfg, mode, bound)."""
    tasks = [(prop, oracle_name, cfg, mode, bound, cap) for cfg, mode, bound in jobs]
    if not tasks:
        result.harness_errors.append(f'vacuous run (no configuration selected): {label}')
    # largest schedule spaces first: the wall time of a run is that of its longest configuration
    tasks.sort(key=lambda t: -((t[3] == 'L') * 1000 + t[2].get('w', 1) * 100 + t[2].get('n', 0) * 10 + t[2].get('b', 0)
                               + 5 * len(t[2].get('consumers', [1]))))
    total = collections.Counter()
    samples, capped = [], []
    for cfg, mode, bound, st, viols, sample in common.pmap(_task, tasks, timeout=3000):
        total['configurations'] += 1
        for k in ('executions', 'complete', 'pruned', 'steps'):
            total[k] += st.get(k, 0)
        total['outcomes'] += st.get('distinct_outcomes', 0)
        if st.get('distinct_logs', 0) > 1 or st.get('complete', 0) > 1:
            total['configurations_with_more_than_one_schedule'] += 1
        if st.get('capped'):
            capped.append({'cfg': cfg, 'mode': mode, 'bound': bound})
        if sample:
            samples.append(sample)
        for v in viols:
            key = finding_key(v['kind'], cfg)
            result.violations.append(common.Violation(
                prop, key, f'{json.dumps(cfg, sort_keys=True)} [{mode}]: {v["detail"]}',
                {'engine': 'schedmc', 'cfg': cfg, 'choices': v['choices'], 'mode': v['mode'],
                 'oracle': oracle_name, 'steps': len(v['choices'])}))
    cov = result.coverage
    cov['states'] = cov.get('states', 0) + total['configurations']
    cov['transitions'] = cov.get('transitions', 0) + total['steps']
    cov['executions'] = cov.get('executions', 0) + total['executions']
    cov['complete_schedules'] = cov.get('complete_schedules', 0) + total['complete']
    cov['sleep_set_pruned'] = cov.get('sleep_set_pruned', 0) + total['pruned']
    cov.setdefault('runs', []).append({'label': label, **{k: int(v) for k, v in total.items()}})
    cov.setdefault('capped_configurations', []).extend(capped)
    cov.setdefault('samples', []).extend(common.sample(samples, 3))
    return total


def _cross_task(args):
    cfg, oracle_name = args
    orc = globals()[oracle_name]
    a = M.explore(cfg, orc, 'P', None, 100000)
    b = M.explore(cfg, orc, 'D', None, 100000)
    c = M.explore(cfg, orc, 'B', 10 ** 6, 100000) if (cfg['w'] == 1 and cfg['n'] <= 3) else None     # no reduction at all
    sig = lambda r: (set(r[2]), sorted(v['kind'] for v in r[1]))      # noqa: E731
    return cfg, sig(a), sig(b), (sig(c) if c else None), a[0]['executions'], b[0]['executions']


def crosscheck(result):
    """Soundness cross-check of the reductions: the same small configurations explored with plain sleep sets
    (mode P), with DPOR (mode D) and without any reduction must produce the same outcomes and verdicts."""
    cfgs = [(dict(entry='prefetch', n=2, w=1, b=1), 'oracle_values'),
            (dict(entry='prefetch', n=2, w=2, b=2, fail_fn={1: 'ValueError'}), 'oracle_values'),
            (dict(entry='prefetch', n=3, w=1, b=1, consumers=[['close', 1]]), 'oracle_values'),
            (dict(entry='parmap', n=3, w=2, b=2), 'oracle_values'),
            (dict(entry='prefetch', n=3, w=2, b=2, fail_fn={0: 'ValueError'}, backend='mp'), 'oracle_values'),
            (dict(entry='prefetch', n=1, w=2, b=2, pre=['cache', 'tile2'], log_points=['start']), 'oracle_once'),
            (dict(entry='prefetch', n=3, w=1, b=1, consumers=[['close', 1]], sync_events=['returned', 'shutdown-begin']),
             'oracle_stop')]
    rows = []
    for cfg, a, b, c, na, nb in common.pmap(_cross_task, cfgs):
        rows.append({'cfg': cfg, 'executions_sleep_sets': na, 'executions_dpor': nb, 'outcomes': len(a[0]),
                     'verdicts': a[1]})
        if a != b or (c is not None and c != a):
            result.harness_errors.append(f'reduction cross-check failed for {cfg}: sleep sets {a}, DPOR {b}, none {c}')
    result.coverage['reduction_crosscheck'] = rows


def _conf_task(cfg):
    st, viols, outcomes = M.explore(cfg, oracle_values, 'D', None, 100000)
    keys = set()
    for o in outcomes:
        rounds = json.loads(o)[0]
        keys.add(json.dumps([[r['delivered'], r['exc']] for r in rounds]))
    return cfg, sorted(keys), [v['kind'] for v in viols]


def conformance(prop, result, tier):
    """Binds the executor models to the real pools: configurations are explored on the models (all schedules) and
    run on the real thread / process pools in a separate interpreter; each real observation must be one of the
    model's outcomes.  A real observation outside the set means the MODEL is wrong (exit 2), not the library."""
    import subprocess
    cfgs = []
    for backend in ['t'] + PROCESS_BACKENDS:
        cfgs.append(dict(entry='prefetch', n=4, w=2, b=2, backend=backend))
        cfgs.append(dict(entry='prefetch', n=3, w=2, b=2, backend=backend, consumers=[['close', 1], ['exhaust']]))
        cfgs.append(dict(entry='prefetch', n=3, w=2, b=2, backend=backend, fail_fn={1: 'ValueError'}))
        cfgs.append(dict(entry='parmap', n=3, w=2, b=2, backend=backend, fail_src={2: 'ValueError'}))
        if backend in ('t', 'mp', 'dill_mp'):
            cfgs.append(dict(entry='prefetch', n=4, w=2, b=2, backend=backend, fail_fn={0: 'FilterException', 2: 'FilterException'},
                             catch=True))
            cfgs.append(dict(entry='parmap', n=3, w=2, b=3, backend=backend, mode='items'))
    if tier == 'quick':
        cfgs = [c for c in cfgs if c['backend'] in ('t', 'dill_mp')]
    model = {}
    for cfg, keys, kinds in common.pmap(_conf_task, cfgs):
        model[json.dumps(cfg, sort_keys=True)] = keys
    script = __import__('os').path.join(common.VERIF, 'vf', 'realpool.py')
    runs = 2 if tier == 'quick' else 4
    validated = 0
    for rep in range(runs):
        try:
            r = subprocess.run(['/venv/bin/python', '-B', script, common.REPO], input=json.dumps(cfgs), capture_output=True,
                               text=True, timeout=600)
            real = json.loads(r.stdout)
        except subprocess.TimeoutExpired:
            result.violations.append(common.Violation(prop, 'real-pools/hang', 'the real pools did not finish the conformance '
                                                      'configurations within 600 s', {'engine': 'realpool'}))
            break
        except Exception as e:      # noqa: BLE001
            result.harness_errors.append(f'real-pool run failed: {e}: {r.stderr[-300:] if "r" in dir() else ""}')
            break
        for cfg, rounds in zip(cfgs, real):
            key = json.dumps([[x['delivered'], x['exc']] for x in rounds])
            validated += 1
            if key not in model[json.dumps(cfg, sort_keys=True)]:
                result.harness_errors.append(f'executor model does not cover a real observation: {cfg}: real {key}, '
                                             f'model outcomes {model[json.dumps(cfg, sort_keys=True)]}')
    result.coverage['real_pool_runs_matched_to_model'] = validated
    result.coverage['traces_validated_against_impl_real_pools'] = validated


def finish(result, floor_exec):
    cov = result.coverage
    cov['traces_validated_against_impl'] = cov.get('executions', 0)
    cov['exhaustive'] = not cov.get('capped_configurations')
    cov['rule'] = ('states = configurations (entry x n x workers x buffer x backend x consumer x faults); every '
                   'configuration is explored over ALL schedules of its visible operations (mode P, sleep sets) or all '
                   'line-level schedules up to the stated preemption bound (mode L); transitions = scheduler steps '
                   'executed on the real parallel_utils code; every execution runs the real library code, so '
                   'traces_validated_against_impl = executions')
    result.violations.sort(key=lambda v: (v.replay.get('steps', 0), v.key))
    if cov.get('executions', 0) < floor_exec:
        result.harness_errors.append(f'non-vacuity floor: only {cov.get("executions", 0)} executions (< {floor_exec})')
    return result


ASSUME = [
    'thread schedules are explored at the granularity of visible operations (modelled queue/threading/executor '
    'primitives, racy closure cells found by bytecode analysis, harness log events); sequential consistency under the GIL',
    'process pools are replaced by in-process models (vf/sched.py) whose semantics were read from the installed '
    'concurrent.futures / multiprocessing / pathos sources, with a real pickle / dill round trip at the process boundary; '
    'lazy_dataset\'s own adapter code runs for real',
    'a blocking call with a timeout fires only at quiescence',
]


def replay(prop, data):
    r = data['replay']
    oracle = globals()[r['oracle']]
    ex, viols = M.replay(r['cfg'], r['choices'], r['mode'], oracle)
    res = common.Result()
    for kind, detail in viols:
        res.violations.append(common.Violation(prop, finding_key(kind, r['cfg']), detail, r))
    res.coverage = {'states': 1, 'transitions': ex.steps}
    return res
