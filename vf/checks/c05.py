"""C05: stopping a prefetching iteration anywhere terminates cleanly (no deadlock, no leaked thread, no
user code after control is back, pending work cancelled on an early stop)."""
from vf import common
from vf.checks import _e2


def consumers(n, tier):
    cons = [[['exhaust']]]
    for k in range(0, n + 1):
        cons.append([['close', k]])
    for k in (0, 1, n):
        cons.append([['drop', k]])
    return cons


def configs(tier):
    out = []
    n = 3
    shapes = [('prefetch', 1, 1, 't'), ('prefetch', 1, 2, 't')]
    for backend in ['t'] + _e2.PROCESS_BACKENDS:
        shapes += [('prefetch', 2, 2, backend), ('parmap', 1, 1, backend), ('parmap', 2, 2, backend)]
        if backend == 't' or tier == 'thorough':
            shapes += [('prefetch', 2, 3, backend), ('parmap', 1, 2, backend)]
        if backend != 't':
            shapes += [('prefetch', 1, 1, backend)]
    if tier == 'thorough':
        shapes += [('prefetch', 3, 3, 't'), ('parmap', 3, 3, 't'), ('prefetch', 1, 3, 't')]
    for entry, w, b, backend in shapes:
        for cons in consumers(n, tier):
            out.append(dict(entry=entry, n=n, w=w, b=b, backend=backend, consumers=cons, sync_events=['returned', 'shutdown-begin']))
        # an error inside the pipeline at every position (the consumer does not stop by itself)
        for p in range(n):
            out.append(dict(entry=entry, n=n, w=w, b=b, backend=backend, fail_fn={p: 'ValueError'},
                            sync_events=['returned', 'shutdown-begin']))
            if entry == 'parmap':
                out.append(dict(entry=entry, n=n, w=w, b=b, backend=backend, fail_src={p: 'ValueError'},
                                sync_events=['returned', 'shutdown-begin']))
        # the source is still producing at the stop point (n well above the stop point)
        if backend == 't' and w <= 2 and b <= 2:
            out.append(dict(entry=entry, n=5, w=w, b=b, backend=backend, consumers=[['close', 1]], sync_events=['returned', 'shutdown-begin']))
            out.append(dict(entry=entry, n=2, w=w, b=b, backend=backend,
                            consumers=[['close', 1], ['close', 0], ['exhaust']], sync_events=['returned', 'shutdown-begin']))
    # a cached stage that several workers ask for the same example, with a failing computation
    for n, fail in ((1, {0: 'ValueError'}), (2, {0: 'ValueError'}), (2, {1: 'ValueError'})):
        out.append(dict(entry='prefetch', n=n, w=2, b=2, backend='t', pre=['cache', 'tile2'], fail_fn=fail,
                        sync_events=['returned', 'shutdown-begin'], log_points=['start']))
    # key iteration (the worker iterates a generator object) stopped while the producer is inside an example
    for b in (1, 2):
        for k in (0, 1, 2):
            for how in ('close', 'drop'):
                out.append(dict(entry='prefetch', n=3, w=1, b=b, backend='t', mode='items', consumers=[[how, k]],
                                sync_events=['returned', 'shutdown-begin'], log_points=['start', 'end']))
        out.append(dict(entry='prefetch', n=3, w=1, b=b, backend='t', mode='items', fail_fn={1: 'ValueError'},
                        sync_events=['returned', 'shutdown-begin'], log_points=['start']))
    return out


def run(tier):
    res = common.Result()
    res.assumptions = list(_e2.ASSUME) + [
        '"finite time" is decided as: no deadlock, no horizon overrun and no live logical thread at the end of every explored schedule']
    cfgs = configs(tier)
    _e2.run_matrix('C05', 'oracle_stop', [(c, 'D', None) for c in cfgs], res, 'mode D (DPOR + sleep sets), all schedules', cap=80000)
    lcfgs = [dict(c, sync_events=[]) for c in cfgs
             if c['backend'] == 't' and c['n'] == 3 and not c.get('fail_fn') and not c.get('fail_src')
             and c['consumers'][0][0] == 'close' and (c['w'] == 1 or (tier == 'thorough' and c['b'] == 2))]
    bound = 1 if tier == 'quick' else 2
    _e2.run_matrix('C05', 'oracle_stop', [(c, 'L', bound) for c in lcfgs], res,
                   f'mode L, every source line, preemption bound {bound}')
    # mode D trusts the dependence labels; state shared through plain attributes / dicts has none.  Every small
    # thread-backend configuration is therefore explored once more without any reduction, up to 2 preemptions
    bcfgs = [c for c in cfgs if c['backend'] == 't' and c['n'] <= 3 and c['w'] <= 2 and len(c.get('consumers', [1])) == 1
             and (tier == 'thorough' or c['b'] <= 2)]
    _e2.run_matrix('C05', 'oracle_stop', [(c, 'B', 2) for c in bcfgs], res,
                   'mode B: visible operations, no reduction, preemption bound 2', cap=60000)
    res.coverage['preemption_bound_completed'] = bound
    return _e2.finish(res, 5000)


def replay(data):
    return _e2.replay('C05', data)
