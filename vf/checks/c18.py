"""C18: sorting and grouping reorder without losing or inventing examples.
All sequences over a small sort-value alphabet (ties everywhere) up to a length bound, with incomparable
payloads that record any attempt to compare them."""
import collections
import itertools

from vf import common

KEYS = ['e', 'c', 'a', 'f', 'h', 'd', 'b', 'g']       # deliberately not in sorted order


class Payload:
    """Incomparable on purpose; comparing two payloads is recorded (and answered arbitrarily)."""
    compared = 0

    def __init__(self, tag):
        self.tag = tag

    def __lt__(self, other):
        Payload.compared += 1
        return self.tag < other.tag

    __gt__ = __le__ = __ge__ = __lt__

    def __eq__(self, other):
        return isinstance(other, Payload) and other.tag == self.tag

    def __hash__(self):
        return hash(self.tag)

    def __repr__(self):
        return f'P{self.tag}'


def sort_value(ex):
    return ex['v']


def custom_sort(seq, reverse=False):
    custom_sort.calls += 1
    return sorted(seq, reverse=reverse)


custom_sort.calls = 0


def build(values, backing):
    import lazy_dataset
    exs = {KEYS[i]: {'v': v, 'id': KEYS[i], 'p': Payload(i)} for i, v in enumerate(values)}
    if backing == 'raw':
        return lazy_dataset.core.DictDataset(exs)
    if backing == 'copy':
        return lazy_dataset.new(exs, immutable_warranty='copy')
    if backing == 'list':
        return lazy_dataset.new(list(exs.values()), immutable_warranty='copy')
    raise ValueError(backing)


UPSTREAM = {
    'none': lambda ds: ds,
    'rev': lambda ds: ds[::-1],
    'map': lambda ds: ds.map(lambda ex: dict(ex, v=ex['v'])),
    'tail': lambda ds: ds[1:],
}


def upstream_ids(ids, up):
    return {'none': ids, 'rev': ids[::-1], 'map': ids, 'tail': ids[1:]}[up]


def check_seq(values):
    st = collections.Counter()
    viols = []

    def bad(key, what, **kw):
        viols.append(common.Violation('C18', key, f'values={list(values)} {kw}: {what}',
                                      {'engine': 'sweep', 'values': list(values), **kw}).to_json())

    n = len(values)
    ids = KEYS[:n]
    val_of = dict(zip(ids, values))
    for backing in ('raw', 'copy', 'list'):
        for up in UPSTREAM:
            if up == 'tail' and n == 0:
                continue
            in_ids = upstream_ids(ids, up)
            for reverse in (False, True):
                for use_key_fn in (True, False):
                    if not use_key_fn and backing == 'list':
                        continue
                    for sf in ('sorted', 'custom'):
                        st['states'] += 1
                        cfg = dict(backing=backing, up=up, reverse=reverse, key_fn=use_key_fn, sort_fn=sf)
                        ds = UPSTREAM[up](build(values, backing))
                        Payload.compared = 0
                        kw = {'reverse': reverse}
                        if sf == 'custom':
                            kw['sort_fn'] = custom_sort
                        try:
                            out = ds.sort(sort_value, **kw) if use_key_fn else ds.sort(**kw)
                            got = list(out)
                        except Exception as e:      # noqa: BLE001
                            bad(f'sort-raises/{type(e).__name__}', f'{type(e).__name__}: {str(e)[:80]}', **cfg)
                            continue
                        st['transitions'] += len(got) + 1
                        got_ids = [ex['id'] for ex in got]
                        if sorted(got_ids) != sorted(in_ids):
                            bad('sort-not-a-permutation', f'ids {got_ids} from {in_ids}', **cfg)
                            continue
                        if Payload.compared:
                            bad('sort-compares-examples', f'{Payload.compared} payload comparisons', **cfg)
                        if use_key_fn:
                            sk = [val_of[i] for i in got_ids]
                        else:
                            sk = got_ids
                        mono = all((a >= b) if reverse else (a <= b) for a, b in zip(sk, sk[1:]))
                        if not mono:
                            bad('sort-order' + ('-reverse' if reverse else '') + ('' if use_key_fn else '-by-key'),
                                f'sort keys {sk}', **cfg)
                        if any(ex['v'] != val_of[ex['id']] for ex in got):
                            bad('sort-invents-examples', f'{got}', **cfg)
                        if backing != 'list':
                            try:
                                ks = list(out.keys())
                                its = [(k, ex['id']) for k, ex in out.items()]
                            except Exception as e:      # noqa: BLE001
                                if len(got_ids):
                                    bad(f'sorted-keys-raise/{type(e).__name__}', str(e)[:80], **cfg)
                            else:
                                if ks != got_ids or its != [(i, i) for i in got_ids]:
                                    bad('sort-detaches-keys', f'keys {ks} items {its} examples {got_ids}', **cfg)
    # histories: several sort / groupby calls on ONE dataset object (results must not depend on earlier calls)
    calls = [('sort', True, False), ('sort', True, True), ('sort', False, False), ('sort', False, True), ('groupby',)]
    for backing in ('raw', 'copy'):
        for hist in itertools.product(calls, repeat=2):
            if n == 0:
                break
            st['states'] += 1
            ds = build(values, backing)
            for step, call in enumerate(hist):
                st['transitions'] += 1
                cfg = dict(backing=backing, history=[list(c) for c in hist], step=step)
                try:
                    if call[0] == 'groupby':
                        groups = ds.groupby(sort_value)
                        got = {g: [ex['id'] for ex in d] for g, d in groups.items()}
                        want = {}
                        for i in ids:
                            want.setdefault(val_of[i], []).append(i)
                        if got != want:
                            bad('groupby-depends-on-earlier-calls', f'groups {got}, expected {want}', **cfg)
                        continue
                    _, use_key_fn, reverse = call
                    out = ds.sort(sort_value, reverse=reverse) if use_key_fn else ds.sort(reverse=reverse)
                    got_ids = [ex['id'] for ex in out]
                except Exception as e:      # noqa: BLE001
                    bad(f'history-raises/{type(e).__name__}', str(e)[:80], **cfg)
                    break
                sk = [val_of[i] for i in got_ids] if use_key_fn else got_ids
                mono = all((a >= b) if reverse else (a <= b) for a, b in zip(sk, sk[1:]))
                if sorted(got_ids) != sorted(ids) or not mono:
                    bad('sort-depends-on-earlier-calls', f'call {call} after {list(hist[:step])} gave sort keys {sk}', **cfg)
                    break
    # groupby: every assignment of group ids
    gid_alphabet = [None, 0, 'a', (0, 1)]
    if n <= 4 or True:
        for assign in itertools.product(range(len(gid_alphabet)), repeat=min(n, 5)):
            st['states'] += 1
            import lazy_dataset
            exs = {KEYS[i]: {'g': a, 'id': KEYS[i], 'p': Payload(i)} for i, a in enumerate(assign)}
            for backing in ('raw', 'list'):
                ds = lazy_dataset.core.DictDataset(exs) if backing == 'raw' else \
                    lazy_dataset.new(list(exs.values()), immutable_warranty='copy')
                cfg = dict(assign=list(assign), backing=backing, op='groupby')
                try:
                    groups = ds.groupby(lambda ex: gid_alphabet[ex['g']])
                    lists = {g: list(d) for g, d in groups.items()}
                except Exception as e:      # noqa: BLE001
                    bad(f'groupby-raises/{type(e).__name__}', str(e)[:80], **cfg)
                    continue
                st['transitions'] += n + 1
                want = collections.OrderedDict()
                for i, a in enumerate(assign):
                    want.setdefault(gid_alphabet[a], []).append(KEYS[i])
                got = {g: [ex['id'] for ex in li] for g, li in lists.items()}
                if got != dict(want):
                    kind = 'groupby-partition'
                    if {g: sorted(v) for g, v in got.items()} == {g: sorted(v) for g, v in want.items()}:
                        kind = 'groupby-order'
                    bad(kind, f'groups {got}, expected {dict(want)}', **cfg)
                    continue
                if backing == 'raw':
                    for g, d in groups.items():
                        if list(d.keys()) != want[g]:
                            bad('groupby-detaches-keys', f'group {g!r} keys {list(d.keys())}', **cfg)
    return st, viols


SORT_ALPHABETS = {
    # mutually comparable in Python, exactly: a conversion to one machine type (float64 / int64) loses the order
    'mixed-numeric': [0.5, 2 ** 53, 2 ** 53 + 1, 2 ** 63, -1, True, -2 ** 63 - 1],
    'strings': ['a', 'B', 'aa', '', 'a\x00'],
    'tuples': [(0, 'x'), (0,), (1, -1), (), (0, 'x', 0)],
}
GROUP_ALPHABETS = {
    # partially ordered ids (sets: < is the subset relation), ids that are equal across types (1 == 1.0 == True)
    'sets': [frozenset({1}), frozenset({2}), frozenset({1, 2}), frozenset()],
    'equal-across-types': [1, 1.0, True, 2, '1'],
}


def check_exotic(args):
    kind, name, idxs = args
    import lazy_dataset
    st = collections.Counter()
    viols = []
    n = len(idxs)

    def bad(key, what, **kw):
        viols.append(common.Violation('C18', key, f'{kind} alphabet {name} sequence {list(idxs)} {kw}: {what}',
                                      {'engine': 'exotic', 'kind': kind, 'name': name, 'idxs': list(idxs), **kw}).to_json())
    if kind == 'sort':
        alpha = SORT_ALPHABETS[name]
        vals = [alpha[i] for i in idxs]
        exs = {KEYS[i]: {'v': v, 'id': KEYS[i], 'p': Payload(i)} for i, v in enumerate(vals)}
        for reverse in (False, True):
            for backing in ('raw', 'list'):
                st['states'] += 1
                ds = lazy_dataset.core.DictDataset(exs) if backing == 'raw' else \
                    lazy_dataset.new(list(exs.values()), immutable_warranty='copy')
                try:
                    got = list(ds.sort(sort_value, reverse=reverse))
                except Exception as e:      # noqa: BLE001
                    bad(f'sort-raises/{type(e).__name__}', str(e)[:80], reverse=reverse, backing=backing)
                    continue
                st['transitions'] += n + 1
                ids = [ex['id'] for ex in got]
                sk = [exs[i]['v'] for i in ids]
                if sorted(ids) != sorted(exs):
                    bad('sort-not-a-permutation', f'ids {ids}', reverse=reverse, backing=backing)
                elif not all((a >= b) if reverse else (a <= b) for a, b in zip(sk, sk[1:])):
                    bad('sort-order' + ('-reverse' if reverse else ''), f'sort keys {sk}', reverse=reverse, backing=backing)
        return st, viols
    alpha = GROUP_ALPHABETS[name]
    exs = {KEYS[i]: {'g': a, 'id': KEYS[i], 'p': Payload(i)} for i, a in enumerate(idxs)}
    for backing in ('raw', 'list'):
        st['states'] += 1
        ds = lazy_dataset.core.DictDataset(exs) if backing == 'raw' else \
            lazy_dataset.new(list(exs.values()), immutable_warranty='copy')
        try:
            groups = ds.groupby(lambda ex: alpha[ex['g']])
            got = {g: [ex['id'] for ex in d] for g, d in groups.items()}
        except Exception as e:      # noqa: BLE001
            bad(f'groupby-raises/{type(e).__name__}', str(e)[:80], backing=backing)
            continue
        st['transitions'] += n + 1
        want = {}
        for i, a in enumerate(idxs):
            want.setdefault(alpha[a], []).append(KEYS[i])
        if got != want:
            bad('groupby-partition', f'groups {got}, expected {want}', backing=backing)
    return st, viols


def sequences(max_len):
    for n in range(0, max_len + 1):
        yield from itertools.product(range(3), repeat=n)


def run(tier):
    res = common.Result()
    max_len = 5 if tier == 'quick' else 7
    total = collections.Counter()
    seqs = list(sequences(max_len))
    for st, viols in common.pmap(check_seq, seqs, chunksize=4):
        total.update(st)
        res.violations.extend(common.Violation.from_json(v) for v in viols)
    xlen = 3 if tier == 'quick' else 5
    xtasks = [(kind, name, idxs) for kind, table in (('sort', SORT_ALPHABETS), ('groupby', GROUP_ALPHABETS))
              for name, alpha in table.items() for m in range(1, xlen + 1)
              for idxs in itertools.product(range(len(alpha)), repeat=m)]
    for st, viols in common.pmap(check_exotic, xtasks, chunksize=16):
        total.update(st)
        res.violations.extend(common.Violation.from_json(v) for v in viols)
    res.coverage['exotic_value_sequences'] = len(xtasks)
    res.violations.sort(key=lambda v: (len(v.replay.get('values', v.replay.get('assign', v.replay.get('idxs', [])))), v.key))
    res.coverage.update(
        states=total['states'], transitions=total['transitions'], traces_validated_against_impl=total['states'],
        exhaustive=True, sequences=len(seqs),
        rule=f'all sequences over sort values {{0,1,2}} of length 0..{max_len} x 3 storages x 4 upstream pipelines x reverse x '
             f'key_fn/key-less x sorted/custom sort_fn; groupby with all assignments of 3 group ids of different types; all sequences to '
             f'length {xlen} over sort values that need exact comparison (huge ints next to floats, strings, tuples) and group ids '
             f'that are partially ordered or equal across types',
        samples=[{'values': [2, 0, 2, 1], 'reverse': True, 'key_fn': True}, {'values': [1, 1], 'key_fn': False},
                 {'groupby_assign': [0, 1, 0, 2]}])
    res.assumptions = ['order among ties is not judged', 'oracle: permutation / monotone sort keys / key attachment; no reference sort']
    return res


def replay(data):
    r = data['replay']
    res = common.Result()
    if r.get('engine') == 'exotic':
        st, viols = check_exotic((r['kind'], r['name'], tuple(r['idxs'])))
        res.violations = [common.Violation.from_json(v) for v in viols]
        res.coverage.update(states=st['states'], transitions=st['transitions'])
        return res
    vals = r.get('values', r.get('assign', []))
    st, viols = check_seq(tuple(vals))
    res.violations = [common.Violation.from_json(v) for v in viols]
    res.coverage.update(states=st['states'], transitions=st['transitions'])
    return res
