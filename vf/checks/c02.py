"""C02: length and integer indexing agree with iteration (E1), plus complete size sweeps of the stages whose index
arithmetic depends on size relations (intersperse of 2-3 parts, batch, slices, concatenate)."""
from vf import sizesweep
from vf.checks import _e1


def run(tier):
    res = _e1.run('C02', {'index'}, tier)
    sw = sizesweep.run('C02', tier, res)
    res.coverage['traces_validated_against_impl'] += sw['states']
    return res


def replay(data):
    if data['replay'].get('engine') == 'sizesweep':
        return sizesweep.replay('C02', data['replay'])
    return _e1.replay('C02', {'index'}, data)
