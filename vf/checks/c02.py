from vf.checks import _e1


def run(tier):
    return _e1.run('C02', {'index'}, tier)


def replay(data):
    return _e1.replay('C02', {'index'}, data)
