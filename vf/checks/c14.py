"""C14: exception-based filtering drops exactly the failing examples.

E1 with fault injection: a map stage that raises on every subset of the values, for several exception
types, 1-3 stages below a catch with every catch specification; the reference interpreter carries `Err`
values (ref.py), so propagation of foreign exceptions at the right position is checked in every
intermediate state too.  Plus the three-way differential lazy filter / eager filter / raise-under-catch for
every predicate (every subset of positions)."""
import collections
import itertools

from vf import build as B
from vf import common
from vf import observe as O
from vf import ref as R
from vf import seqmc

SOURCES = [
    ['dict', [['b', 3], ['a', 1], ['c', 2]], 'pickle'],
    ['list', [3, 1, 2], 'pickle'],
    ['dict', [['a', 1]], 'pickle'],
]
EXCS = ['FilterException', 'SubFilter', 'ValueError', 'KeyError', 'IndexError']
# classes the library itself uses for control flow: a user function may raise them as well
EXCS_INTERNAL = ['NotImplementedError', 'TypeError', 'AssertionError', 'RuntimeError', 'AttributeError']
BETWEEN = [
    ['map', 'add10'],
    ['slice', [1, None, None]],
    ['slice', [None, None, -1]],
    ['items'],
    ['concat', 'list_2'],
    ['concat', 'self'],
    ['concat', 'dict_2'],
    ['intersperse', 'dict_disjoint'],
    ['key_zip', 'self_map'],
    ['batch', 2, False],
    ['idx', [0, 0, -1]],
    ['copy'],
    ['cache'],
]
CATCHES = [
    ['catch'],
    ['catch', ['FilterException']],
    ['catch', ['ValueError']],
    ['catch', ['FilterException', 'KeyError']],
    ['catch', ['Exception']],
]


def subsets(vals):
    for r in range(1, len(vals) + 1):
        yield from itertools.combinations(vals, r)


def check_program(ex, program, what):
    """Build along the path, checking the invariant in every prefix state; returns False if a prefix state
    is outside the reference domain."""
    ref = R.source(program['source'])
    ds = B.source(program['source'])
    prog = {'source': program['source'], 'ops': []}
    tags = frozenset()
    for op in program['ops']:
        tags = tags | seqmc.structural_tags(ref, op)
        try:
            cref = R.apply(ref, op)
        except R.Refuse:
            ex.stats['outside_domain'] += 1
            return False
        prog = {'source': program['source'], 'ops': prog['ops'] + [op]}
        try:
            cds = B.apply(ds, ref, op)
        except BaseException as e:      # noqa: BLE001
            ex.stats['states'] += 1
            ex.judge([(f'build-refused:{O.exc_name(e)}', f'building the stage raised {O.exc_name(e)}: {str(e)[:80]!r}')],
                     cref, prog, frozenset(), tags)
            return False
        ds, ref = cds, cref
    ok, _ = ex.check_state(ds, ref, prog, frozenset(), tags)
    return ok


class Explorer14(seqmc.Explorer):
    def judge(self, mism, ref, program, taint, tags=frozenset()):
        ok = True
        stage = seqmc.stage_name(ref, program['source'], len(program['ops']))
        raising = [op for op in program['ops'] if op[0] == 'map_raise']
        exc = raising[0][1] if raising else 'none'
        for kind, detail in mism:
            kind, _, sub = kind.partition(':')
            key = f'{kind}/{stage}/injected-{exc}' + (f'/{sub}' if sub else '') + ''.join('@' + t for t in sorted(tags))
            self.violations.append(common.Violation(
                'C14', key, f'{seqmc.describe(program)}: {detail}',
                {'engine': 'seqmc', 'program': program, 'what': sorted(self.what)}).to_json())
            ok = False
        return ok, taint


def _task(args):
    source, exc, depth = args
    ex = Explorer14('C14', {'iter', 'keys'}, 0, [])
    vals = [v for _, v in R.source(source).items]
    seen = 0
    for bad in subsets(sorted(set(vals))):
        raiser = ['map_raise', exc, list(bad)]
        for d in range(0, depth + 1):
            for mid in itertools.product(BETWEEN, repeat=d):
                base = {'source': source, 'ops': [raiser] + [list(m) for m in mid]}
                ex.stats['transitions'] += 1
                if not check_program(ex, base, ex.what):
                    continue
                for c in CATCHES:
                    prog = {'source': source, 'ops': base['ops'] + [c]}
                    ex.stats['transitions'] += 1
                    check_program(ex, prog, ex.what)
                    seen += 1
    sample = {'program': {'source': source, 'ops': [['map_raise', exc, [vals[0]]], ['items'], ['catch']]}}
    return ex.stats, ex.violations, [sample]


def filter_forms(n):
    """lazy filter == eager filter == raise FilterException under catch, for every predicate."""
    import lazy_dataset
    viols = []
    count = 0
    for keyed in (True, False):
        src = {f'k{i}': i for i in range(n)} if keyed else list(range(n))
        for keep in itertools.chain.from_iterable(itertools.combinations(range(n), r) for r in range(n + 1)):
            count += 1
            keep = set(keep)
            ds = lazy_dataset.new(src)

            def pred(x, keep=keep):
                return x in keep

            def raiser(x, keep=keep):
                if x not in keep:
                    raise lazy_dataset.FilterException(x)
                return x
            forms = {
                'lazy-filter': ds.filter(pred),
                'eager-filter': ds.filter(pred, lazy=False),
                'catch': ds.map(raiser).catch(),
            }
            want = sorted(keep)
            for name, f in forms.items():
                try:
                    got = list(f)
                    pairs = list(f.items()) if keyed else None
                except Exception as e:      # noqa: BLE001
                    got, pairs = f'raises {type(e).__name__}', None
                if got != want or (pairs is not None and pairs != [(f'k{i}', i) for i in want]):
                    viols.append(common.Violation(
                        'C14', f'filter-forms-differ/{name}',
                        f'n={n} keyed={keyed} predicate keeps {want}: {name} gives {got} items {pairs}',
                        {'engine': 'filter-forms', 'n': n}))
    return count, viols


class Flaky:
    """Raises for the values in `bad`; the harness changes `bad` between two iterations of ONE pipeline object."""

    def __init__(self, exc):
        self.exc, self.bad = exc, set()

    def __call__(self, v):
        if v in self.bad:
            raise self.exc(v)
        return v


def repeated_iterations(nmax):
    """The same catch object iterated several times while the set of failing examples changes (every pair of
    subsets), and with a per-epoch reshuffle below it (all rng answers): every iteration yields precisely the
    examples that do not fail in THAT iteration."""
    import lazy_dataset
    from vf import choicemc as CM
    viols = []
    count = 0
    for n in range(1, nmax + 1):
        subsets_n = [set(c) for r in range(n + 1) for c in itertools.combinations(range(n), r)]
        for keyed in (True, False):
            for first, second in itertools.product(subsets_n, repeat=2):
                count += 1
                fl = Flaky(lazy_dataset.FilterException)
                src = {f'k{i}': i for i in range(n)} if keyed else list(range(n))
                ds = lazy_dataset.new(src).map(fl).catch()
                got = []
                for bad in (first, second, first):
                    fl.bad = bad
                    try:
                        got.append(list(ds.items()) if keyed else list(ds))
                    except Exception as e:      # noqa: BLE001
                        got.append(f'raises {type(e).__name__}')
                want = [[(f'k{i}', i) if keyed else i for i in range(n) if i not in bad] for bad in (first, second, first)]
                if got != want:
                    viols.append(common.Violation(
                        'C14', 'catch-depends-on-earlier-iterations',
                        f'n={n} keyed={keyed} failing sets per iteration {[sorted(first), sorted(second), sorted(first)]}: '
                        f'got {got}, expected {want}', {'engine': 'repeated', 'n': n}))
                    break
    for n in range(1, min(nmax, 3) + 1):
        for bad in [set(c) for r in range(1, n + 1) for c in itertools.combinations(range(n), r)]:
            def body(ch, n=n, bad=bad):
                fl = Flaky(lazy_dataset.FilterException)
                fl.bad = bad
                ds = lazy_dataset.new({f'k{i}': i for i in range(n)}).shuffle(True, rng=CM.ChoiceRng(ch)).map(fl).catch()
                return [list(ds) for _ in range(3)]
            for choices, epochs in CM.explore(body, cap=200000):
                count += 1
                for e, out in enumerate(epochs):
                    if sorted(out) != [i for i in range(n) if i not in bad]:
                        viols.append(common.Violation(
                            'C14', 'catch-over-reshuffle-loses-examples',
                            f'n={n} failing {sorted(bad)} rng answers {choices}: epoch {e} yields {out}',
                            {'engine': 'repeated', 'n': n}))
                        break
                else:
                    continue
                break
    return count, viols


def items_signal():
    """catch(Exception) must not swallow the internal items-not-defined signal: items() over a keyless
    pipeline has to fail loudly instead of yielding nothing."""
    import lazy_dataset
    viols = []
    for name, ds in (('list', lazy_dataset.new([1, 2, 3])),
                     ('zip', lazy_dataset.new({'a': 1}).zip(lazy_dataset.new({'a': 2}))),
                     ('batch', lazy_dataset.new({'a': 1, 'b': 2}).batch(2))):
        for mk in (lambda d: d.catch(Exception).items(), lambda d: d.map(abs).catch(Exception).items(),
                   lambda d: d.prefetch(1, 2, catch_filter_exception=Exception).items()):
            try:
                got = list(mk(ds))
            except Exception:       # noqa: BLE001
                continue
            viols.append(common.Violation('C14', f'items-signal-swallowed/{name}',
                                          f'items() over a keyless {name} pipeline under catch(Exception) yielded {got} '
                                          f'instead of failing', {'engine': 'items-signal'}))
    return viols


class _RaiseStop:
    def __init__(self, bad):
        self.bad = set(bad)

    def __call__(self, v):
        if v in self.bad:
            raise StopIteration(f'user:{v}')
        return v


def _add10(v):
    return v + 10


def stop_iteration_sweep(nmax):
    """An example whose evaluation raises StopIteration (e.g. a function calling next() on an empty iterator) is a failing
    example like any other: dropped if the caught set covers it, otherwise the iteration ends with an error at its
    position - never a silent end of data.  (Python turns a StopIteration that leaves a generator into a RuntimeError
    whose cause is the StopIteration; both spellings are accepted, a clean end is not.)"""
    import itertools
    import lazy_dataset
    viols, cnt = {}, 0

    def bad(key, what, **kw):
        viols.setdefault(key, common.Violation('C14', key, f'{kw}: {what}', {'engine': 'stop-iteration', **kw}))
    specs = {'Exception': Exception, 'StopIteration': StopIteration, 'StopIteration+ValueError': (StopIteration, ValueError),
             'ValueError': ValueError, 'default': None}
    for n in range(1, nmax + 1):
        vals = list(range(n))
        for r in range(1, n + 1):
            for F in itertools.combinations(vals, r):
                for between in ('none', 'map', 'map-slice'):
                    for sname, spec in specs.items():
                        for mode in ('values', 'items'):
                            cnt += 1
                            ds = lazy_dataset.new({f'k{i}': i for i in vals}).map(_RaiseStop(F))
                            exp = [v for v in vals if v not in F]
                            first_bad = min(F)
                            if between != 'none':
                                ds = ds.map(_add10)
                                exp = [v + 10 for v in exp]
                            if between == 'map-slice':
                                ds = ds[::-1]
                                exp = exp[::-1]
                                first_bad = max(F)
                            ds = ds.catch() if spec is None else ds.catch(spec)
                            covered = sname in ('Exception', 'StopIteration', 'StopIteration+ValueError')
                            got, err = [], None
                            try:
                                for x in (ds.items() if mode == 'items' else ds):
                                    got.append(x[1] if mode == 'items' else x)
                            except BaseException as e:      # noqa: BLE001
                                err = e
                            kw = dict(n=n, failing=list(F), between=between, catch=sname, mode=mode)
                            if covered:
                                if err is not None or got != exp:
                                    bad(f'stop-iteration/not-dropped/{mode}', f'got {got} then {type(err).__name__ if err else None}; '
                                                                              f'expected {exp}', **kw)
                            else:
                                order = vals[::-1] if between == 'map-slice' else vals
                                before = [v + (10 if between != 'none' else 0) for v in order[:order.index(first_bad)]]
                                if err is None:
                                    bad(f'stop-iteration/silent-end-of-data/{mode}', f'the iteration ended normally with {got}; example '
                                        f'{first_bad} raised StopIteration, which {sname} does not cover', **kw)
                                elif not (isinstance(err, StopIteration) or isinstance(err.__cause__, StopIteration)):
                                    bad(f'stop-iteration/wrong-error/{type(err).__name__}/{mode}', f'{err!r}', **kw)
                                elif got != before:
                                    bad(f'stop-iteration/wrong-prefix/{mode}', f'got {got} before the error, expected {before}', **kw)
    return cnt, list(viols.values())


def run(tier):
    res = common.Result()
    depth = 2 if tier == 'quick' else 3
    tasks = [(s, e, depth) for s in SOURCES for e in EXCS] + \
        [(s, e, max(1, depth - 1)) for s in SOURCES[:2] for e in EXCS_INTERNAL]
    total = collections.Counter()
    samples = []
    for st, viols, smp in common.pmap(_task, tasks):
        total.update(st)
        samples += smp
        res.violations.extend(common.Violation.from_json(v) for v in viols)
    nmax = 4 if tier == 'quick' else 6
    cnt = 0
    for n in range(0, nmax + 1):
        c, v = filter_forms(n)
        cnt += c
        res.violations.extend(v)
    res.violations.extend(items_signal())
    c2, v2 = repeated_iterations(3 if tier == 'quick' else 4)
    cnt += c2
    res.violations.extend(v2)
    c3, v3 = stop_iteration_sweep(3 if tier == 'quick' else 5)
    cnt += c3
    res.violations.extend(v3)
    seqmc.shortest_first(res)
    res.coverage.update(
        states=total['states'] + cnt, transitions=total['transitions'] + 3 * cnt,
        traces_validated_against_impl=total['states'] + cnt, exhaustive=True, outside_domain=total['outside_domain'],
        predicates_three_way=cnt, samples=common.sample(samples, 3),
        rule=f'states = programs: source x (map raising exception E on subset F of the values, every non-empty F, E in {EXCS}) x '
             f'every sequence of <= {depth} stages from {len(BETWEEN)} in-between stages x (no catch | {len(CATCHES)} catch '
             f'specifications); value iteration (twice, copies) and items()/keys()/lookup compared with the reference '
             f'interpreter; plus every predicate over n <= {nmax} positions for the three filter forms')
    res.assumptions = ['reference semantics of raising examples: vf/ref.py (Err values)']
    return res


def replay(data):
    r = data['replay']
    res = common.Result()
    if r.get('engine') == 'seqmc':
        ex = Explorer14('C14', set(r['what']), 0, [])
        check_program(ex, r['program'], set(r['what']))
        res.violations = [common.Violation.from_json(v) for v in ex.violations]
        res.coverage.update(states=1, transitions=len(r['program']['ops']))
    elif r.get('engine') == 'repeated':
        c, v = repeated_iterations(r['n'])
        res.violations = v
        res.coverage.update(states=c, transitions=c)
    elif r.get('engine') == 'stop-iteration':
        c, v = stop_iteration_sweep(r['n'])
        res.violations = v
        res.coverage.update(states=c, transitions=c)
    elif r.get('engine') == 'filter-forms':
        c, v = filter_forms(r['n'])
        res.violations = v
        res.coverage.update(states=c, transitions=c)
    else:
        res.violations = items_signal()
        res.coverage.update(states=1, transitions=1)
    return res
