"""C04: prefetch and parallel map are transparent (same examples, same order, same length)."""
from vf import common
from vf.checks import _e2


def configs(tier):
    ns = [0, 1, 2, 3, 4] if tier == 'quick' else [0, 1, 2, 3, 4, 5]
    out = []
    for backend in ['t'] + _e2.PROCESS_BACKENDS:
        for n in ns:
            for mode in ('values', 'items'):
                shapes = [('parmap', 1, 1), ('parmap', 2, 2), ('parmap', 2, 3), ('prefetch', 2, 2), ('prefetch', 2, 3)]
                if backend == 't':
                    shapes += [('prefetch', 1, 1), ('prefetch', 1, 2), ('parmap', 1, 2), ('parmap', 1, 3)]
                else:
                    shapes += [('prefetch', 1, 1), ('prefetch', 1, 2)]
                if tier == 'thorough':
                    shapes += [('prefetch', 3, 3), ('parmap', 3, 3), ('prefetch', 2, 4), ('prefetch', 3, 4)]
                for entry, w, b in shapes:
                    if mode == 'items' and backend in ('multiprocessing', 'concurrent_mp'):
                        continue     # documented: these pools pickle with plain pickle and cannot ship the local closures
                    if n > 3 and (w > 1 or backend != 't' or entry != 'parmap') and not (
                            tier == 'thorough' and n == 4 and w == 2 and backend == 't'):
                        continue
                    consumers = [[['exhaust'], ['exhaust']]]
                    if n >= 2:
                        consumers.append([['close', 1], ['exhaust']])
                    for cons in consumers:
                        out.append(dict(entry=entry, n=n, w=w, b=b, backend=backend, mode=mode, consumers=cons))
    return out


def composed(tier):
    comp = []
    for pre in (['tile2'], ['concat_map'], ['slice_rev'], ['sort'], ['intersperse_map'], ['zip_map'], ['key_zip_map'],
                ['cache'], ['items'], ['concat_map', 'slice_rev'], ['tile2', ['batch', 2]], ['slice_rev', 'sort']):
        for n in ((1, 2) if tier == 'quick' else (1, 2, 3)):
            comp.append(dict(entry='prefetch', n=n, w=2, b=2, backend='t', pre=pre, copy_first=(n == 1)))
    return comp


def random_stage(tier, modes=('values', 'items')):
    """A per-epoch reshuffle (seeded generator) in front of prefetch / parallel map: every epoch must equal the plain
    pipeline with an equally seeded generator."""
    out = []
    for backend in ['t'] + _e2.PROCESS_BACKENDS:
        for entry, w, b in (('prefetch', 2, 2), ('prefetch', 1, 2), ('parmap', 2, 2), ('parmap', 1, 1)):
            for mode in modes:
                if mode == 'items' and backend in ('multiprocessing', 'concurrent_mp'):
                    continue
                for n in ((3,) if tier == 'quick' else (2, 3, 4)):
                    out.append(dict(entry=entry, n=n, w=w, b=b, backend=backend, mode=mode, pre=['reshuffle'], twin=True,
                                    consumers=[['exhaust'], ['exhaust'], ['exhaust']]))
    return out


def static_len(result):
    """len(ds.prefetch(...)) / len(parallel map) equals len(ds)."""
    import lazy_dataset
    n_checked = 0
    for n in range(0, 5):
        base = lazy_dataset.new({f'k{i}': i for i in range(n)})
        for w, b in ((1, 1), (1, 3), (2, 2), (3, 4)):
            for backend in ['t'] + _e2.PROCESS_BACKENDS:
                for ds, what in ((base.prefetch(w, b, backend), 'prefetch'),
                                 (base.map(abs, num_workers=w, buffer_size=b, backend=backend), 'parmap')):
                    n_checked += 1
                    try:
                        got = len(ds)
                    except BaseException as e:      # noqa: BLE001
                        got = type(e).__name__
                    if got != n:
                        result.violations.append(common.Violation(
                            'C04', f'len/{what}', f'len(ds.{what}({w},{b},{backend!r})) = {got}, len(ds) = {n}',
                            {'engine': 'static-len', 'n': n, 'w': w, 'b': b, 'backend': backend, 'what': what}))
    result.coverage['length_checks'] = n_checked


def run(tier):
    res = common.Result()
    res.assumptions = list(_e2.ASSUME)
    cfgs = configs(tier)
    _e2.run_matrix('C04', 'oracle_values', [(c, 'D', None) for c in cfgs], res, 'mode D (DPOR + sleep sets), all schedules')
    lcfgs = [c for c in cfgs if c['backend'] == 't' and c['mode'] == 'values' and c['n'] in (2, 3)
             and len(c['consumers']) == 2 and c['consumers'][0] == ['exhaust']]
    bound = 1 if tier == 'quick' else 2
    lcfgs = [dict(c, consumers=[['exhaust']]) for c in lcfgs if (tier == 'thorough' or c['n'] == 2 or c['w'] == 1)]
    _e2.run_matrix('C04', 'oracle_values', [(c, 'L', bound) for c in lcfgs], res,
                   f'mode L, every source line, preemption bound {bound}')
    bcfgs = [dict(c, consumers=[['exhaust']]) for c in cfgs
             if c.get('backend', 't') == 't' and 2 <= c['n'] <= 3 and c['w'] <= 2 and c['b'] <= 2
             and c['consumers'][0] == ['exhaust'] and c.get('mode') != 'items']
    bb = 1 if tier == 'quick' else 2
    _e2.run_matrix('C04', 'oracle_values', [(c, 'B', bb) for c in bcfgs if tier == 'thorough' or c['w'] == 1 or c['n'] == 2], res,
                   f'mode B: visible operations, no reduction, preemption bound {bb}', cap=60000)
    res.coverage['preemption_bound_completed'] = bound
    # pipelines whose stages are executed concurrently by the workers: every source line of lazy_dataset.core is a
    # scheduling point as well (lazily built per-stage state, e.g. cached key tuples or offsets, is shared by the workers)
    # unusual example types (arrays whose == is element-wise, objects equal to everything, None) and two iterations
    # over one dataset object that are alive at the same time (pools cached per worker count are shared)
    special = []
    for entry, w, b in (('prefetch', 1, 1), ('prefetch', 1, 2), ('prefetch', 2, 2), ('parmap', 1, 1), ('parmap', 2, 2)):
        for payload in ('ndarray', 'eq_any', 'none'):
            for backend in (['t'] if payload == 'eq_any' else ['t', 'dill_mp']):
                if entry == 'prefetch' and w == 1 and backend != 't':
                    continue
                special.append(dict(entry=entry, n=3, w=w, b=b, backend=backend, payload=payload))
        for backend in ['t'] + _e2.PROCESS_BACKENDS:
            for k in (0, 1):
                special.append(dict(entry=entry, n=2 if backend != 't' else 3, w=w, b=b, backend=backend,
                                    consumers=[['two-iterators', k]]))
    _e2.run_matrix('C04', 'oracle_values', [(c, 'D', None) for c in special], res,
                   'unusual example types; two live iterators over one dataset; mode D')
    _e2.run_matrix('C04', 'oracle_values', [(c, 'D', None) for c in random_stage(tier)], res,
                   'per-epoch reshuffle upstream, three epochs, differential against the equally seeded plain pipeline; mode D')
    comp = composed(tier)
    _e2.run_matrix('C04', 'oracle_values', [(c, 'D', None) for c in comp], res, 'composed pipelines, mode D')
    _e2.run_matrix('C04', 'oracle_values', [(c, 'L', 1) for c in comp if c['n'] == 2 or tier == 'thorough'], res,
                   'composed pipelines, mode L: every source line of core.py and parallel_utils.py, preemption bound 1',
                   cap=40000)
    static_len(res)
    _e2.crosscheck(res)
    _e2.conformance('C04', res, tier)
    return _e2.finish(res, 2000)


def replay(data):
    if data['replay'].get('engine') == 'static-len':
        res = common.Result()
        static_len(res)
        res.coverage.update(states=1, transitions=1)
        return res
    return _e2.replay('C04', data)
