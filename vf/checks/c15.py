"""C15: shards partition the dataset.  Complete enumeration of (n, k, i) up to a bound."""
import collections

from vf import common


def _ident(x):
    return x


def check_n(args):
    n, shard_all, kind = args
    import lazy_dataset
    st = collections.Counter()
    viols = []
    if kind == 'list':
        ds = lazy_dataset.new(list(range(n)))
        keys = None
    elif kind in ('shuffled', 'reversed', 'sorted', 'strided'):
        import numpy as np
        base = lazy_dataset.new(list(range(n)))
        if kind == 'shuffled':
            ds = base.shuffle(False, rng=np.random.RandomState(n))
        elif kind == 'reversed':
            ds = base[::-1]
        elif kind == 'sorted':
            ds = base.sort(lambda x: (x * 7) % 11)
        else:
            ds = base.concatenate(base.map(lambda x: x + n))[::2] if n else base
        full = list(ds)
        keys = None
    elif kind == 'dict-pipeline':
        # keys survive map / concatenate / slice; the shards must carry them along
        h = n // 2
        ka, kb = [f'a{i:03d}' for i in range(h)], [f'b{i:03d}' for i in range(n - h)]
        a = lazy_dataset.new({k: i for i, k in enumerate(ka)})
        b = lazy_dataset.new({k: h + i for i, k in enumerate(kb)})
        ds = a.map(_ident).concatenate(b)[::-1] if n else a
        keys = (ka + kb)[::-1]
        full = list(range(n))[::-1]
    else:
        keys = [f'k{i:03d}' for i in range(n)]
        ds = lazy_dataset.new({k: i for i, k in enumerate(keys)})
    if kind in ('list', 'dict'):
        full = list(range(n))
    n = len(full)

    def bad(key, what, k, i=None):
        viols.append(common.Violation('C15', key, f'n={n} k={k}' + (f' i={i}' if i is not None else '') + f' ({kind}): {what}',
                                      {'engine': 'sweep', 'n': n, 'k': k, 'i': i, 'kind': kind}).to_json())

    for k in range(-1, n + 3):
        st['states'] += 1
        valid = 1 <= k <= n
        try:
            parts = ds.split(k)
        except Exception as e:      # noqa: BLE001
            if valid:
                bad('split-refused', f'split({k}) raised {type(e).__name__}', k)
            parts = None
        else:
            if not valid:
                bad('invalid-count-accepted', f'split({k}) did not raise', k)
                parts = None
        if not valid:
            for i in ({0, k - 1, -1} if shard_all else {0}):
                st['transitions'] += 1
                try:
                    ds.shard(k, i)
                except Exception:       # noqa: BLE001
                    pass
                else:
                    bad('invalid-count-accepted', f'shard({k},{i}) did not raise', k, i)
            continue
        lists = [list(p) for p in parts]
        st['transitions'] += len(parts)
        if len(parts) != k:
            bad('wrong-number-of-shards', f'{len(parts)} shards', k)
            continue
        flat = [x for li in lists for x in li]
        if flat != full:
            if sorted(flat) == sorted(full):
                bad('order-lost', f'concatenating the shards gives {flat[:12]}...', k)
            elif len(flat) != len(set(flat)):
                bad('shards-overlap', f'duplicates in the concatenated shards {flat[:12]}...', k)
            else:
                bad('examples-lost', f'concatenating the shards gives {flat[:12]}...', k)
            continue
        sizes = [len(li) for li in lists]
        if any(len(p) != s for p, s in zip(parts, sizes)):
            bad('len-mismatch', 'len(shard) differs from its iteration', k)
        if max(sizes) - min(sizes) > 1:
            bad('unbalanced', f'sizes {sizes}', k)
        if keys is not None:
            fk = [x for p in parts for x in p.keys()]
            if fk != keys:
                bad('keys-lost', f'keys of the shards {fk[:8]}...', k)
        if n <= 16:
            import numpy as np
            # the shards are datasets in their own right: random access, numpy counts, shards of shards
            for j, (p, li) in enumerate(zip(parts, lists)):
                st['transitions'] += 1
                try:
                    got = [p[i] for i in range(len(li))] + [p[-i - 1] for i in range(len(li))]
                except Exception as e:      # noqa: BLE001
                    bad('shard-index-raises', f'split({k})[{j}][i] raised {type(e).__name__}: {e}', k, j)
                    continue
                if got != li + li[::-1]:
                    bad('shard-index-differs', f'split({k})[{j}] by index gives {got[:8]}, iterated {li[:8]}', k, j)
                for k2 in range(1, len(li) + 1):
                    try:
                        sub = [list(q) for q in p.split(k2)]
                    except Exception as e:      # noqa: BLE001
                        bad('shard-of-shard-refused', f'split({k})[{j}].split({k2}) raised {type(e).__name__}', k, j)
                        continue
                    ss = [len(q) for q in sub]
                    if [x for q in sub for x in q] != li or max(ss) - min(ss) > 1 or len(sub) != k2:
                        bad('shard-of-shard-wrong', f'split({k})[{j}].split({k2}) = {sub}', k, j)
            try:
                np_parts = [list(p) for p in ds.split(np.int64(k))]
            except Exception as e:      # noqa: BLE001
                bad('numpy-count-refused', f'split(np.int64({k})) raised {type(e).__name__}', k)
            else:
                if np_parts != lists:
                    bad('numpy-count-differs', f'split(np.int64({k})) = {np_parts}', k)
            for i in range(-k, 0):
                st['transitions'] += 1
                try:
                    sh = list(ds.shard(k, i))
                except Exception as e:      # noqa: BLE001
                    bad('shard-refused', f'shard({k},{i}) raised {type(e).__name__}', k, i)
                    continue
                if sh != lists[i]:
                    bad('shard-differs-from-split', f'shard({k},{i})={sh[:8]} split[{i}]={lists[i][:8]}', k, i)
        if n <= 24:
            # the returned list belongs to the caller: whatever is done to it, a later split / shard answers the same
            for what in ('reverse', 'clear', 'replace'):
                try:
                    mine = ds.split(k)
                    if what == 'reverse':
                        mine.reverse()
                    elif what == 'clear':
                        del mine[:]
                    else:
                        mine[0] = mine[-1]
                    again = [list(p) for p in ds.split(k)]
                    sh0 = list(ds.shard(k, 0))
                except Exception as e:      # noqa: BLE001
                    bad('split-after-caller-edit-raises', f'after {what} of an earlier result: {type(e).__name__}: {e}', k)
                    continue
                st['transitions'] += 1
                if again != lists or sh0 != lists[0]:
                    bad('split-depends-on-earlier-result', f'after the caller did {what} on the list an earlier split({k}) '
                                                           f'returned, split gives {again[:3]}.., shard({k},0) {sh0[:6]}', k)
        idxs = range(k) if shard_all else sorted({0, k // 2, k - 1})
        for i in idxs:
            st['transitions'] += 1
            try:
                sh = list(ds.shard(k, i))
            except Exception as e:      # noqa: BLE001
                bad('shard-refused', f'shard({k},{i}) raised {type(e).__name__}', k, i)
                continue
            if sh != lists[i]:
                bad('shard-differs-from-split', f'shard({k},{i})={sh[:8]} split[{i}]={lists[i][:8]}', k, i)
    return st, viols


def check_boundary(args):
    """Sizes around 2**7, 2**8, 2**15, 2**16 (index arrays of a narrower integer type wrap there), for a list, a batched
    and a concatenated dataset; a few shard counts, full partition oracle."""
    n, kind = args
    import lazy_dataset
    st = collections.Counter()
    viols = []
    if kind == 'list':
        ds = lazy_dataset.new(list(range(n)))
    elif kind == 'batch2':
        ds = lazy_dataset.new(list(range(2 * n))).batch(2)
    elif kind == 'batch3-map':
        ds = lazy_dataset.new(list(range(3 * n - 1))).map(_ident).batch(3)
    else:
        h = n // 2
        ds = lazy_dataset.new(list(range(h))).concatenate(lazy_dataset.new(list(range(h, n))))
    full = list(ds)
    if len(full) != n:
        return st, [common.Violation('C15', 'boundary/setup', f'{kind} n={n}: iteration gives {len(full)}',
                                     {'engine': 'boundary', 'n': n, 'kind': kind}).to_json()]
    for k in sorted(({1, 2, 3, 7, 127, 128, 129, 255, 256, 257} | ({n - 1, n} if n <= 1000 else set())) & set(range(1, n + 1))):
        st['states'] += 1
        try:
            parts = ds.split(k)
            lists = [list(p) for p in parts]
            byidx = [parts[j][len(lists[j]) - 1] for j in sorted({0, k // 2, k - 1}) if lists[j]]
            want = [lists[j][-1] for j in sorted({0, k // 2, k - 1}) if lists[j]]
            sh = list(ds.shard(k, k - 1))
        except Exception as e:      # noqa: BLE001
            viols.append(common.Violation('C15', 'boundary/raises', f'{kind} n={n} k={k}: {type(e).__name__}: {e}',
                                          {'engine': 'boundary', 'n': n, 'kind': kind, 'k': k}).to_json())
            continue
        st['transitions'] += k
        sizes = [len(x) for x in lists]
        flat = [x for li in lists for x in li]
        if flat != full or max(sizes) - min(sizes) > 1 or len(lists) != k or sh != lists[-1] or byidx != want:
            firstbad = next((i for i, (a, b) in enumerate(zip(flat, full)) if a != b), None)
            viols.append(common.Violation(
                'C15', 'boundary/not-a-partition',
                f'{kind} n={n} k={k}: sizes {sizes[:4]}.., first difference at position {firstbad}: '
                f'{flat[firstbad] if firstbad is not None else None} instead of {full[firstbad] if firstbad is not None else None}',
                {'engine': 'boundary', 'n': n, 'kind': kind, 'k': k}).to_json())
    return st, viols


def run(tier):
    res = common.Result()
    n_split, n_shard = (120, 60) if tier == 'quick' else (400, 150)
    tasks = []
    for n in range(0, n_split + 1):
        tasks.append((n, n <= n_shard, 'list'))
        if n <= (24 if tier == 'quick' else 80):
            tasks.append((n, True, 'dict'))
            tasks.append((n, True, 'dict-pipeline'))
        if n <= (30 if tier == 'quick' else 90):
            for kind in ('shuffled', 'reversed', 'sorted', 'strided'):
                tasks.append((n, n <= 20, kind))
    tasks.sort(key=lambda t: -t[0])
    total = collections.Counter()
    for st, viols in common.pmap(check_n, tasks):
        total.update(st)
        res.violations.extend(common.Violation.from_json(v) for v in viols)
    bsizes = [127, 128, 129, 255, 256, 257, 300] + ([32767, 32768, 32769, 65535, 65536, 65537] if tier == 'thorough'
                                                      else [32769, 65537])
    btasks = [(n, kind) for n in bsizes for kind in ('list', 'batch2', 'batch3-map', 'concat')]
    for st, viols in common.pmap(check_boundary, btasks):
        total.update(st)
        res.violations.extend(common.Violation.from_json(v) for v in viols)
    res.coverage['boundary_sizes'] = bsizes
    res.violations.sort(key=lambda v: (v.replay['n'], v.replay.get('k') or 0))
    res.coverage.update(
        states=total['states'], transitions=total['transitions'], traces_validated_against_impl=total['states'],
        exhaustive=True,
        rule=f'states = every (n, k) with 0 <= n <= {n_split}, -1 <= k <= n+2 (list-backed; dict-backed up to a smaller n); '
             f'transitions = shards examined; shard(k, i) for every i when n <= {n_shard}, else i in {{0, k//2, k-1}}',
        samples=[{'n': 5, 'k': 2, 'expect_sizes': [3, 2]}, {'n': n_split, 'k': 7}, {'n': 3, 'k': 4, 'expect': 'rejected'}],
        bounds={'n_split': n_split, 'n_shard_all_indices': n_shard})
    res.assumptions = ['oracle: arithmetic partition properties only (no reference implementation)']
    return res


def replay(data):
    r = data['replay']
    res = common.Result()
    if r.get('engine') == 'boundary':
        st, viols = check_boundary((r['n'], r['kind']))
    else:
        st, viols = check_n((r['n'], True, r['kind']))
    res.violations = [common.Violation.from_json(v) for v in viols]
    res.coverage.update(states=st['states'], transitions=st['transitions'])
    return res
