"""C08: evaluation is demand-driven: nothing runs early, nothing runs twice.

E1 over the lazy sub-alphabet with an instrumented user function at every stage.  In every state (program):
(a) building the pipeline calls nothing; (b) after each of the first k next() calls (every k) the call log of
every stage equals the reference demand of those k results (stages below a buffering stage may run ahead by
at most that buffer); (c) ds[i] / ds[key] on a fresh object call exactly the functions that result needs."""
import collections
import itertools

from vf import build as B
from vf import common
from vf import demand as D
from vf import fns
from vf import observe as O
from vf import ref as R

SOURCES = [
    ['dict', [['b', 3], ['a', 1], ['c', 2], ['d', 4]], 'pickle'],
    ['list', [3, 1, 2], 'pickle'],
    ['list', [5], 'copy'],
    ['dict', [], 'pickle'],
    ['list', [7, 1, 2, 3, 4, 5, 6, 8], 'pickle'],
]

OPS = [
    ['map', 'add10'],
    ['filter', 'is_odd', True],
    ['slice', [1, None, None]],
    ['batch', 2, False],
    ['items'],
    ['idx', [0, 0, -1]],
    ['cache'],
    ['prefetch', 1, 2],
    ['slice', [None, None, -1]],
    ['map', 'pair'],
    ['unbatch'],
    ['keys', 'rev2'],
    ['tile', 2],
    ['catch'],
    ['copy'],
    ['batch', 2, True],
    ['batch', 3, False],
    ['filter', 'is_small', True],
    ['shuffle', 'rot1'],
    ['shard', 2, 1],
    ['prefetch', 2, 2],
    ['parmap', 'mul3', 2, 2],
    ['concat', 'self'],
    ['concat', 'self_map'],
    ['concat', 'list_2'],
    ['intersperse', 'self_map'],
    ['intersperse', 'list_2'],
    ['zip', 'self'],
    ['zip', 'self_map'],
    ['key_zip', 'self_map'],
    ['key_zip', 'dict_same'],
    ['key_zip', 'self_rev_map'],        # same keys in another order, a user function in front of the second input
]
CORE = [op for op in OPS if op in (
    ['map', 'add10'], ['filter', 'is_odd', True], ['slice', [1, None, None]], ['batch', 2, False], ['items'],
    ['idx', [0, 0, -1]], ['cache'], ['prefetch', 1, 2], ['unbatch'], ['tile', 2], ['catch'], ['zip', 'self_map'],
    ['concat', 'self_map'], ['map', 'pair'], ['intersperse', 'list_2'])]


class Instr:
    """User function of one stage: logs (stage, repr(argument))."""

    def __init__(self, stage, fn, log):
        self.stage, self.fn, self.log = stage, fn, log

    def __call__(self, v):
        self.log.append((self.stage, repr(v)))
        return self.fn(v)


def apply_real(ds, ref, op, stage, log):
    name = op[0]
    if name == 'map':
        return ds.map(Instr(stage, fns.FNS[op[1]], log))
    if name == 'parmap':
        return ds.map(Instr(stage, fns.FNS[op[1]], log), num_workers=op[2], buffer_size=op[3])
    if name == 'filter':
        return ds.filter(Instr(stage, fns.FNS[op[1]], log), lazy=True)
    if name in ('concat', 'intersperse', 'zip', 'key_zip') and op[1] == 'self_map':
        other = ds.map(Instr(stage, fns.mul3, log))
        return {'concat': ds.concatenate, 'intersperse': ds.intersperse, 'zip': ds.zip, 'key_zip': ds.key_zip}[name](other)
    if name == 'key_zip' and op[1] == 'self_rev_map':
        return ds.key_zip(ds[::-1].map(Instr(stage, fns.mul3, log)))
    return B.apply(ds, ref, op)


def apply_model(dem, ref, op, stage):
    """Returns (cref, cdem) or raises R.Refuse."""
    cref = R.apply(ref, op)
    name = op[0]
    if name == 'cache' and ref.keyed and not R.unique(ref.keys()):
        # a cache over repeated keys is addressed by position or by key depending on the consumer; by key the repeats
        # share one entry, so FEWER evaluations than positions are legitimate: outside the demand model
        raise R.Refuse('cache over repeated keys')
    if name in ('concat', 'intersperse', 'zip', 'key_zip'):
        pref = R.partner(ref, op[1])
        if op[1] == 'self':
            pdem = dem
        elif op[1] == 'self_map':
            pdem = D.apply(dem, ref, ['map', 'mul3'], pref, stage)
        elif op[1] == 'self_rev_map':
            rev = ['slice', [None, None, -1]]
            rref = R.apply(ref, rev)
            pdem = D.apply(D.apply(dem, ref, rev, rref, stage), rref, ['map', 'mul3'], pref, stage)
        else:
            pdem = D.source(pref)
        return cref, D.apply(dem, ref, op, cref, stage, pdem, pref)
    return cref, D.apply(dem, ref, op, cref, stage)


def build_real(program, log):
    ref = R.source(program['source'])
    ds = B.source(program['source'])
    for stage, op in enumerate(program['ops']):
        ds2 = apply_real(ds, ref, op, stage, log)
        ref = R.apply(ref, op)
        ds = ds2
    return ds


def expected_calls(items_calls, seen):
    """Flatten the calls of a sequence of item accesses, skipping what a cache below already holds."""
    out = []
    for calls in items_calls:
        out += D.flatten(calls, seen)
    return out


def per_stage(calls):
    d = collections.defaultdict(list)
    for st, arg in calls:
        d[st].append(arg)
    return d


def compare(log, exp_min, exp_max, slack):
    """Per stage: exact stages must equal exp_min; slack stages must extend exp_min and be a prefix of exp_max."""
    got, lo, hi = per_stage(log), per_stage(exp_min), per_stage(exp_max)
    for st in set(got) | set(lo):
        g, a, b = got.get(st, []), lo.get(st, []), hi.get(st, [])
        if st in slack:
            # several iterators over a buffering stage run concurrently: compare as multisets
            cg, ca, cb = collections.Counter(g), collections.Counter(a), collections.Counter(b)
            if ca - cg:
                return st, 'too-few', g, a
            if cg - cb:
                return st, 'ran-ahead-of-buffer', g, b
        elif g != a:
            kind = 'extra-calls' if len(g) > len(a) and g[:len(a)] == a else \
                ('missing-calls' if len(g) < len(a) and a[:len(g)] == g else
                 ('evaluated-twice' if sorted(set(g)) == sorted(set(a)) and len(g) > len(a) else 'wrong-calls'))
            return st, kind, g, a
    return None


def check_program(program, st, report):
    """All three clauses for one program; report(kind, detail)."""
    try:
        ref = R.source(program['source'])
        dem = D.source(ref)
        for stage, op in enumerate(program['ops']):
            ref, dem = apply_model(dem, ref, op, stage)
    except R.Refuse:
        st['outside_domain'] += 1
        return None
    if ref.has_err() or not ref.finite:
        return None
    names = [op[0] for op in program['ops']]
    if 'cache' in names and any(x in names[names.index('cache'):] for x in ('prefetch', 'parmap')):
        # several concurrently running workers over one shared cache may compute an example twice (known
        # finding of C10, decided there under a controlled scheduler); under free-running threads the call
        # counts of such pipelines are not deterministic, so they are not judged here
        st['not_judged_cache_under_prefetch'] += 1
        return ref
    common.gc_tick()
    st['states'] += 1
    top = program['ops'][-1][0] if program['ops'] else program['source'][0]
    # (a) construction runs nothing
    log = []
    try:
        with O.deadline(10):
            ds = build_real(program, log)
    except BaseException:       # noqa: BLE001   (whether the pipeline works at all is decided by C01-C03)
        st['not_evaluable'] += 1
        return None
    if log:
        report(f'runs-at-construction/{top}', f'building the pipeline called {log}')
        return ref
    # (b) every prefix of one iteration (of the pipeline, and of a copy() of a second fresh build)
    n = ref.n()
    for via_copy in (False, True):
        if via_copy:
            log = []
            try:
                ds = build_real(program, log).copy()
            except BaseException:       # noqa: BLE001
                break
            if log:
                report(f'runs-at-copy/{top}', f'copy() called {log}')
                return ref
        r = _prefixes(ds, ref, dem, log, n, top + ('/via-copy' if via_copy else ''), st, report)
        if r is not None:
            return r
    _point_access(program, ref, dem, n, top, st, report)
    return ref


def _prefixes(ds, ref, dem, log, n, top, st, report):
    it = None
    try:
        return _prefixes_inner(ds, ref, dem, log, n, top, st, report, lambda x: it_box.append(x))
    finally:
        for g in it_box:
            try:
                g.close()
            except BaseException:       # noqa: BLE001
                pass
        del it_box[:]


it_box = []


def _prefixes_inner(ds, ref, dem, log, n, top, st, report, keep):
    try:
        with O.deadline(20):
            it = iter(ds)
            if hasattr(it, 'close'):
                keep(it)
            if log:
                report(f'runs-at-iter-creation/{top}', f'iter(ds) called {log}')
                return ref
            for k in range(1, n + 2):
                st['transitions'] += 1
                try:
                    next(it)
                    exhausted = False
                except StopIteration:
                    exhausted = True
                seen_k = set()
                lo = expected_calls(dem.seq[:k] + ([dem.tail] if exhausted or k > n else []), seen_k)
                seen_h = set()
                hi = expected_calls(dem.seq[:k + dem.ahead] + [dem.tail] + [dem.extra], seen_h)
                snap = list(log)
                bad = compare(snap, lo, hi, dem.slack)
                if bad:
                    stg, kind, g, a = bad
                    report(f'iteration-{kind}/{top}', f'after {k} next() calls stage {stg} was called with {g}; '
                                                      f'the first {k} results need {a}')
                    return ref
                if exhausted:
                    break
    except BaseException:       # noqa: BLE001
        st['not_evaluable'] += 1
        return ref
    return None


def _point_access(program, ref, dem, n, top, st, report):
    # (c') an index that does not exist has no result: nothing may be evaluated for it
    if ref.indexable and ref.sized and ref.finite:
        for i in (n, -n - 1):
            log3 = []
            try:
                ds3 = build_real(program, log3)
                try:
                    _ = ds3[i]
                except IndexError:
                    pass
                except BaseException:       # noqa: BLE001
                    continue
                else:
                    continue            # returning a value is C02's business
            except BaseException:       # noqa: BLE001
                break
            st['transitions'] += 1
            if log3:
                report(f'access-out-of-range-evaluates/{top}', f'ds[{i}] (out of range) called {log3} before raising IndexError')
                break
    # (c) point access on a fresh object
    for i in range(n):
        if dem.rand[i] is None and (dem.keyrand is None or dem.keyrand[i] is None):
            continue
        for how in ('index', 'key'):
            if how == 'index' and (dem.rand[i] is None or not ref.indexable):
                continue
            if how == 'key':
                k = ref.items[i][0]
                if k is None or not ref.lookup or ref.keys().count(k) != 1:
                    continue
            st['transitions'] += 1
            log2 = []
            ds2 = build_real(program, log2)
            calls = dem.rand[i]
            if how == 'key' and dem.keyrand is not None and dem.keyrand[i] is not None:
                calls = dem.keyrand[i]
            if calls is None:
                continue
            try:
                _ = ds2[i] if how == 'index' else ds2[ref.items[i][0]]
            except BaseException:       # noqa: BLE001
                st['not_evaluable'] += 1
                break
            want = expected_calls([calls], set())
            bad = compare(log2, want, want, frozenset())
            if bad:
                stg, kind, g, a = bad
                report(f'access-{kind}/{top}', f'ds[{i if how == "index" else ref.items[i][0]!r}] called stage {stg} '
                                               f'with {g}; that one result needs {a}')
                break
    return ref


def _task(args):
    source, first, depth, alphabet = args
    st = collections.Counter()
    viols = {}
    samples = []

    def rec(program, d):
        def report(kind, detail):
            if kind not in viols:
                from vf import seqmc
                viols[kind] = common.Violation('C08', kind, f'{seqmc.describe(program)}: {detail}',
                                               {'engine': 'seqmc-demand', 'program': program}).to_json()
                rec.bad = True
        rec.bad = False
        ref = check_program(program, st, report)
        if ref is None or rec.bad:
            return
        if d == depth and len(samples) < 2:
            samples.append({'program': program})
        if d < depth:
            for op in alphabet:
                rec({'source': program['source'], 'ops': program['ops'] + [op]}, d + 1)
    if first is None:
        rec({'source': source, 'ops': []}, 0) if depth == 0 else check_program({'source': source, 'ops': []}, st, lambda k, d: None)
    else:
        rec({'source': source, 'ops': [first]}, 1)
    return st, list(viols.values()), samples


def run(tier):
    res = common.Result()
    tasks = []
    if tier == 'quick':
        plans = [(2, OPS, SOURCES), (4, CORE, SOURCES[:2])]
    else:
        plans = [(3, OPS, SOURCES), (5, CORE, SOURCES[:2])]
    total = collections.Counter()
    samples = []
    for depth, alphabet, sources in plans:
        tasks = [(s, None, depth, alphabet) for s in sources] + [(s, op, depth, alphabet) for s in sources for op in alphabet]
        for st, viols, smp in common.pmap(_task, tasks, timeout=1500):
            total.update(st)
            samples += smp
            res.violations.extend(common.Violation.from_json(v) for v in viols)
    res.violations.sort(key=lambda v: (len(v.replay['program']['ops']), v.key))
    res.coverage.update(
        states=total['states'], transitions=total['transitions'], traces_validated_against_impl=total['states'],
        exhaustive=True, outside_domain=total['outside_domain'], samples=common.sample(samples, 3),
        rule=f'states = programs over the lazy sub-alphabet ({len(OPS)} ops, depth {plans[0][0]}; {len(CORE)}-op core alphabet, '
             f'depth {plans[1][0]}) with an instrumented function at every stage; transitions = next() calls and point '
             f'accesses whose call log was compared with the reference demand model (vf/demand.py)')
    res.assumptions = ['reference demand model vf/demand.py; stages below a buffering stage (prefetch, parallel map) may run '
                       'ahead by buffer_size + 2 items, everything else is compared exactly, per stage and in order']
    if total['states'] < 1000:
        res.harness_errors.append('non-vacuity floor: fewer than 1000 states')
    return res


def replay(data):
    r = data['replay']
    res = common.Result()
    st = collections.Counter()
    check_program(r['program'], st, lambda k, d: res.violations.append(common.Violation('C08', k, d, r)))
    res.coverage.update(states=1, transitions=st['transitions'])
    return res
