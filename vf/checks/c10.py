"""C10: the memory cache is transparent, computes each example once, and freezes it.

E3: explicit-state search over access histories.  A state is the history reaching it (replayed on fresh
real objects); the canonical form is the state of a boring reference model (which examples are cached,
memory level, latch, position of the live iterator), so the search runs to closure of the reachable
abstract state graph; every transition is executed on the real CacheDataset and every returned value is
compared with the model.  Plus: complete tree of short histories without merging, the eager variant, and
two thread-prefetch workers forced onto the same example (E2)."""
import collections
import itertools

from vf import common

N = 3
KEYS = ['a', 'b', 'c']
REPS = 3        # representative histories explored per abstract state


class Upstream:
    """Freshly 'random' per call: the returned value carries its call number, so a recomputation is visible
    in the VALUE."""

    def __init__(self):
        self.calls = collections.Counter()

    def __call__(self, i):
        self.calls[i] += 1
        return value(i, self.calls[i])


def value(i, call):
    """A tuple (immutable container) with mutable members: what the cache hands out must still be frozen."""
    return ({'i': i, 'call': call}, [i, call])


def scribble(got):
    """After every event the harness mutates, in place, everything it was handed."""
    for v in got:
        if isinstance(v, tuple) and len(v) == 2 and isinstance(v[0], str):
            v = v[1]
        if isinstance(v, tuple) and isinstance(v[0], dict):
            v[0]['call'] = 'MUTATED'
            v[0]['extra'] = 1
            v[1].append('MUTATED')


class Memory:
    def __init__(self):
        self.low = False

    def __call__(self):
        class VM:
            pass
        v = VM()
        v.available = 1 if self.low else 10 ** 15
        v.total = 10 ** 15
        return v


def events():
    ev = []
    for i in range(N):
        ev += [('idx', i), ('neg', i), ('key', i), ('copy-idx', i)]
    for j in range(N - 1):
        ev.append(('slice', j))
    ev += [('iter',), ('next',), ('copy-iter',), ('items',), ('mem-low',), ('mem-ok',), ('freeze-iter',),
           ('oob', N), ('oob', -N - 1)]
    return ev


class Model:
    """Reference: dict example -> first value stored; latch when a miss happens under low memory."""

    def __init__(self):
        self.cache = {}
        self.calls = collections.Counter()
        self.low = False
        self.latched = False
        self.it_pos = None

    def key(self):
        return (frozenset(self.cache), self.low, self.latched, self.it_pos)

    def access(self, i):
        if i in self.cache:
            return value(i, self.cache[i])
        self.calls[i] += 1
        if not self.latched and self.low:
            self.latched = True
        if not self.latched:
            self.cache[i] = self.calls[i]
        return value(i, self.calls[i])

    def apply(self, ev):
        """Returns the list of values the event must return."""
        k = ev[0]
        if k in ('idx', 'neg', 'key', 'copy-idx'):
            return [self.access(ev[1])]
        if k == 'slice':
            return [self.access(ev[1] + 1)]
        if k in ('iter', 'copy-iter', 'freeze-iter'):
            return [self.access(i) for i in range(N)]
        if k == 'items':
            return [(KEYS[i], self.access(i)) for i in range(N)]
        if k == 'next':
            if self.it_pos is None:
                self.it_pos = 0
            if self.it_pos >= N:
                return ['StopIteration']
            v = self.access(self.it_pos)
            self.it_pos += 1
            return [v]
        if k == 'mem-low':
            self.low = True
            return []
        if k == 'mem-ok':
            self.low = False
            return []
        if k == 'oob':
            return ['IndexError']
        raise ValueError(ev)


class Real:
    def __init__(self, keep_mem_free='1 KB'):
        import lazy_dataset
        import psutil
        self.mem = Memory()
        self._psutil = psutil
        self._old = psutil.virtual_memory
        psutil.virtual_memory = self.mem
        self.up = Upstream()
        self.ds = lazy_dataset.new({k: i for i, k in enumerate(KEYS)}).map(self.up).cache(keep_mem_free=keep_mem_free)
        self.it = None

    def close(self):
        self._psutil.virtual_memory = self._old

    def apply(self, ev):
        k = ev[0]
        ds = self.ds
        if k == 'idx':
            return [ds[ev[1]]]
        if k == 'neg':
            return [ds[ev[1] - N]]
        if k == 'key':
            return [ds[KEYS[ev[1]]]]
        if k == 'copy-idx':
            return [ds.copy()[ev[1]]]
        if k == 'slice':
            return [ds[1:][ev[1]]]
        if k == 'iter':
            return list(ds)
        if k == 'copy-iter':
            return list(ds.copy())
        if k == 'freeze-iter':
            return list(ds.copy(freeze=True))
        if k == 'items':
            return list(ds.items())
        if k == 'next':
            if self.it is None:
                self.it = iter(ds)
            try:
                return [next(self.it)]
            except StopIteration:
                return ['StopIteration']
        if k == 'mem-low':
            self.mem.low = True
            return []
        if k == 'mem-ok':
            self.mem.low = False
            return []
        if k == 'oob':
            try:
                return [ds[ev[1]]]
            except IndexError:
                return ['IndexError']
        raise ValueError(ev)


def run_history(hist, keep='1 KB'):
    """Replays a history on fresh real objects and on the model; returns (first mismatch | None, model)."""
    real, model = Real(keep), Model()
    try:
        for n, ev in enumerate(hist):
            want = model.apply(ev)
            try:
                got = real.apply(ev)
            except Exception as e:      # noqa: BLE001
                return (n, ev, f'raised {type(e).__name__}: {str(e)[:60]}', want), model
            if got != want:
                return (n, ev, got, want), model
            scribble(got)
            if dict(real.up.calls) != dict(model.calls):
                return (n, ev, f'upstream calls {dict(real.up.calls)}', f'upstream calls {dict(model.calls)}'), model
    finally:
        real.close()
    return None, model


def classify(hist, mis):
    n, ev, got, want = mis
    kinds = {e[0] for e in hist[:n + 1]}
    after_low = any(e[0] == 'mem-low' for e in hist[:n + 1])
    if isinstance(got, str) and got.startswith('upstream calls'):
        what = 'recomputed'
    elif isinstance(got, str) and got.startswith('raised'):
        what = 'raises'
    else:
        what = 'wrong-value'
    tag = ev[0]
    neg = 'negative-index' if 'neg' in kinds else ''
    return '/'.join(x for x in (what, tag, neg, 'after-memory-threshold' if after_low else '') if x)


def closure(keep):
    """BFS over the abstract state graph; each transition is replayed from scratch on the real object."""
    evs = events()
    st = collections.Counter()
    viols = {}
    seen = {Model().key(): []}
    reps = collections.Counter({Model().key(): 1})
    frontier = collections.deque([[]])
    while frontier:
        hist = frontier.popleft()
        for ev in evs:
            h2 = hist + [ev]
            st['transitions'] += 1
            mis, model = run_history(h2, keep)
            if mis is not None:
                k = classify(h2, mis)
                if k not in viols:
                    viols[k] = (h2, mis)
                continue
            key = model.key()
            if key not in seen:
                seen[key] = h2
                reps[key] = 1
                frontier.append(h2)
            elif reps[key] < REPS and seen[key] and h2[0] != seen[key][0]:
                # the same abstract state reached by a history that starts differently: the model says both have
                # the same future; explore the events from this one too (differential check of the abstraction)
                reps[key] += 1
                frontier.append(h2)
    st['states'] = len(seen)
    st['extra_representatives'] = sum(reps.values()) - len(seen)
    return st, viols, seen


TREE_EVENTS = [('idx', 0), ('idx', 2), ('neg', 2), ('key', 1), ('next',), ('iter',), ('slice', 1), ('copy-idx', 1),
               ('mem-low',), ('copy-iter',), ('oob', -N - 1)]


def tree(depth, keep):
    evs = TREE_EVENTS if depth > 2 else events()
    st = collections.Counter()
    viols = {}
    for d in range(1, depth + 1):
        for hist in itertools.product(evs, repeat=d):
            st['tree_histories'] += 1
            mis, _ = run_history(list(hist), keep)
            if mis is not None:
                k = classify(list(hist), mis)
                if k not in viols:
                    viols[k] = (list(hist), mis)
    return st, viols


def eager_variant():
    """cache(lazy=False) snapshots content and order at call time."""
    import lazy_dataset
    import numpy as np
    out = []
    up = Upstream()
    rng = np.random.RandomState(0)
    base = lazy_dataset.new({k: i for i, k in enumerate(KEYS)}).map(up)
    for name, ds in (('plain', base), ('one-time-shuffle', base.shuffle(False, rng=rng)),
                     ('filter', base.filter(lambda e: e[0]['i'] != 1))):
        snap = ds.cache(lazy=False)
        calls_after_build = dict(up.calls)
        first = list(snap)
        for _ in range(2):
            if list(snap) != first or [snap[i] for i in range(len(first))] != first:
                out.append((f'eager-not-frozen/{name}', f'{first} then {list(snap)}'))
        if dict(up.calls) != calls_after_build:
            out.append((f'eager-recomputes/{name}', f'upstream calls {calls_after_build} -> {dict(up.calls)}'))
        if len(snap) != len(first):
            out.append((f'eager-len/{name}', f'{len(snap)} vs {len(first)}'))
    return out


def _task(args):
    kind, arg, keep = args
    if kind == 'closure':
        st, viols, seen = closure(keep)
        sample = [{'history': [list(e) for e in h], 'abstract_state': repr(k)} for k, h in list(seen.items())[-3:]]
    else:
        st, viols = tree(arg, keep)
        sample = []
    out = []
    for k, (hist, mis) in viols.items():
        out.append(common.Violation('C10', k + (f'@keep={keep}' if keep is None else ''),
                                    f'history {hist}: event {mis[1]} gave {mis[2]}, expected {mis[3]}',
                                    {'engine': 'histmc', 'history': [list(e) for e in hist], 'keep': keep}).to_json())
    return st, out, sample


def prefetch_same_example(res, tier):
    """Two thread-prefetch workers forced onto the same cached example (all schedules, E2)."""
    from vf.checks import _e2
    cfgs = []
    for n, b in ((1, 2), (1, 3), (2, 2)) + (((2, 3),) if tier == 'thorough' else ()):
        if True:
            cfgs.append(dict(entry='prefetch', n=n, w=2, b=b, backend='t', pre=['cache', 'tile2'], post_tile=True,
                             log_points=['start']))
    jobs = [(c, 'D', None) for c in cfgs]
    before = len(res.violations)
    _e2.run_matrix('C10', 'oracle_once', jobs, res, 'E2: cache().tile(2).prefetch(2, b), all schedules')
    # a cold cache filled by two workers and read back in a second epoch: every source line a scheduling point
    fill = [dict(entry='prefetch', n=n, w=2, b=2, backend='t', pre=['cache'], consumers=[['exhaust'], ['exhaust']])
            for n in ((2, 3) if tier == 'quick' else (2, 3, 4))]
    bound = 1 if tier == 'quick' else 2
    _e2.run_matrix('C10', 'oracle_values', [(c, 'D', None) for c in fill] + [(c, 'L', bound) for c in fill if tier == 'thorough' or c['n'] == 2], res,
                   f'E2: cache().prefetch(2, 2) filled cold by two workers, then read back; mode D and mode L bound {bound}',
                   cap=100000)
    return len(res.violations) - before


def run(tier):
    res = common.Result()
    total = collections.Counter()
    tasks = [('closure', None, '1 KB'), ('closure', None, None), ('tree', 2, '1 KB'), ('tree', 4, '1 KB')]
    if tier == 'thorough':
        tasks += [('tree', 5, '1 KB'), ('tree', 3, None)]
    samples = []
    for st, viols, sample in common.pmap(_task, tasks):
        total.update(st)
        samples += sample
        res.violations.extend(common.Violation.from_json(v) for v in viols)
    for k, d in eager_variant():
        res.violations.append(common.Violation('C10', k, d, {'engine': 'eager'}))
    res.violations.sort(key=lambda v: (len(v.replay.get('history', [])), v.key))
    prefetch_same_example(res, tier)
    cov = res.coverage
    cov['states'] = cov.get('states', 0) + total['states']
    cov['transitions'] = cov.get('transitions', 0) + total['transitions'] + total['tree_histories']
    cov['tree_histories'] = total['tree_histories']
    cov['abstract_states_closed'] = total['states']
    cov['samples'] = (samples or [{'history': [['idx', 0], ['neg', 0]]}]) + cov.get('samples', [])
    res.coverage.update(
        traces_validated_against_impl=total['transitions'] + total['tree_histories'] + res.coverage.get('executions', 0), exhaustive=True,
        rule='states = reachable abstract states (cached set, memory level, latch, live-iterator position) of the reference '
             'model, closed under 19 events (index of either sign, key, slice, iteration, one next() of a live iterator, '
             'items(), through copy(), memory drops / recovers) for keep_mem_free set and default; every transition is '
             'replayed from scratch on a fresh real CacheDataset; plus the complete tree of histories of depth 2 (3 thorough) '
             'and the E2 exploration of two prefetch workers on the same example')
    res.assumptions = ['psutil.virtual_memory is rebound by the harness to control "available memory"',
                       'the upstream map function numbers its calls, so a recomputation changes the returned value']
    return res


def replay(data):
    r = data['replay']
    res = common.Result()
    if r.get('engine') == 'histmc':
        hist = [tuple(e) for e in r['history']]
        mis, _ = run_history(hist, r.get('keep'))
        if mis is not None:
            res.violations.append(common.Violation('C10', classify(hist, mis), f'event {mis[1]} gave {mis[2]}, expected {mis[3]}', r))
        res.coverage.update(states=1, transitions=len(hist))
        return res
    if r.get('engine') == 'eager':
        for k, d in eager_variant():
            res.violations.append(common.Violation('C10', k, d, r))
        res.coverage.update(states=1, transitions=1)
        return res
    from vf.checks import _e2
    return _e2.replay('C10', data)
