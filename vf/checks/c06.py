"""C06: errors raised in background work surface at the right position and are never swallowed;
catch_filter_exception drops exactly the selected failures."""
import itertools

from vf import common
from vf.checks import _e2


def subsets(n, max_size=None):
    for r in range(1, (max_size or n) + 1):
        for c in itertools.combinations(range(n), r):
            yield c


def configs(tier):
    out = []
    n = 3
    catches = [None, True, ['ValueError'], ['FilterException', 'KeyError']]
    # single-thread path: the whole upstream pipeline is the "source" of the worker thread
    for b in (1, 2):
        for F in subsets(n):
            for exc in ('FilterException', 'SubFilter', 'ValueError', 'UserBaseError'):
                for catch in catches:
                    if tier == 'quick' and exc == 'SubFilter' and catch not in (True,):
                        continue
                    out.append(dict(entry='prefetch', n=n, w=1, b=b, fail_fn={i: exc for i in F}, catch=catch))
        # two different exception types in one stream
        out.append(dict(entry='prefetch', n=n, w=1, b=b, fail_fn={0: 'FilterException', 2: 'ValueError'}, catch=True))
        out.append(dict(entry='prefetch', n=n, w=1, b=b, fail_fn={1: 'ValueError', 2: 'FilterException'}, catch=True))
    # key iteration through the single-thread path with catching
    for b in (1, 2):
        for F in subsets(n):
            for catch in (True, ['ValueError']):
                out.append(dict(entry='prefetch', n=n, w=1, b=b, mode='items', fail_fn={i: 'FilterException' for i in F},
                                catch=catch))
        out.append(dict(entry='prefetch', n=n, w=1, b=b, mode='items', fail_fn={0: 'FilterException', 1: 'ValueError'},
                        catch=True))
    # pool path
    for backend in ['t', 'mp', 'dill_mp', 'multiprocessing', 'concurrent_mp']:
        shapes = [(2, 2)] + ([(2, 3)] if backend == 't' or tier == 'thorough' else [])
        for w, b in shapes:
            for F in subsets(n, None if (backend == 't' or tier == 'thorough') else 2):
                excs = ['FilterException', 'ValueError'] + (['UserBaseError'] if backend == 't' else [])
                for exc in excs:
                    for catch in catches[:2] + ([catches[3]] if backend == 't' else []):
                        if catch is not None and backend in ('multiprocessing', 'concurrent_mp'):
                            continue        # plain-pickle pools cannot ship the local catcher closure (documented)
                        out.append(dict(entry='prefetch', n=n, w=w, b=b, backend=backend,
                                        fail_fn={i: exc for i in F}, catch=catch))
        out.append(dict(entry='prefetch', n=n, w=2, b=2, backend=backend, fail_fn={0: 'KeyError', 1: 'ValueError'}))
    # parallel map: errors of the mapped function and of the (serially evaluated) source
    for backend in ['t', 'mp', 'dill_mp']:
        for w, b in ((1, 1), (2, 2)):
            for nn in ((3, 4) if backend == 't' else (4,)):
                for p in range(nn):
                    for exc in ('ValueError',) + (('UserBaseError',) if backend == 't' else ()):
                        out.append(dict(entry='parmap', n=nn, w=w, b=b, backend=backend, fail_fn={p: exc}))
                        out.append(dict(entry='parmap', n=nn, w=w, b=b, backend=backend, fail_src={p: exc}))
                if backend == 't':
                    out.append(dict(entry='parmap', n=nn, w=w, b=b, backend=backend, fail_fn={1: 'ValueError'},
                                    fail_src={nn - 1: 'KeyError'}))
                    out.append(dict(entry='parmap', n=nn, w=w, b=b, backend=backend, fail_fn={nn - 1: 'ValueError'},
                                    fail_src={1: 'KeyError'}, mode='items'))
    # the smallest streams: one or two examples, every subset failing (shortcuts for short inputs)
    for nn in (1, 2):
        for F in subsets(nn):
            for exc in ('FilterException', 'ValueError'):
                for catch in (None, True, ['ValueError']):
                    out.append(dict(entry='prefetch', n=nn, w=1, b=1, fail_fn={i: exc for i in F}, catch=catch))
                    for backend in ['t', 'mp', 'dill_mp', 'multiprocessing', 'concurrent_mp']:
                        if catch is not None and backend in ('multiprocessing', 'concurrent_mp'):
                            continue
                        out.append(dict(entry='prefetch', n=nn, w=2, b=2, backend=backend, fail_fn={i: exc for i in F},
                                        catch=catch))
                        if backend != 't' and len(F) == 1:
                            out.append(dict(entry='prefetch', n=nn, w=1, b=1, backend=backend, fail_fn={i: exc for i in F},
                                            catch=catch))
                if exc == 'ValueError':
                    for backend in ('t', 'dill_mp'):
                        out.append(dict(entry='parmap', n=nn, w=2, b=2, backend=backend, fail_fn={i: exc for i in F}))
    # a regrouping stage between the failing function and the prefetch: the batch fails as a whole, at its position,
    # also when the function raises an exception class that the stages use themselves (IndexError ends a batch lookup)
    for nn in (2, 3, 4):
        for p in range(nn):
            for exc in ('IndexError', 'ValueError', 'AssertionError'):
                for catch in (None, [exc]):
                    for w, b, backend in ((1, 1, 't'), (2, 2, 't'), (2, 2, 'dill_mp')):
                        if tier == 'quick' and (exc == 'AssertionError' or (backend != 't' and nn != 4)):
                            continue
                        out.append(dict(entry='prefetch', n=nn, w=w, b=b, backend=backend, fail_fn={p: exc}, catch=catch,
                                        pre=[['batch', 2]]))
    return out


def run(tier):
    res = common.Result()
    res.assumptions = list(_e2.ASSUME)
    cfgs = configs(tier)
    _e2.run_matrix('C06', 'oracle_values', [(c, 'D', None) for c in cfgs], res, 'mode D (DPOR + sleep sets), all schedules')
    lcfgs = [c for c in cfgs if c.get('backend', 't') == 't' and len(c.get('fail_fn') or {}) == 1
             and c.get('catch') is None and not c.get('fail_src')
             and next(iter(c['fail_fn'].values())) == 'ValueError'
             and (c['w'] == 1 or tier == 'thorough' or 1 in c['fail_fn'])]
    bound = 1 if tier == 'quick' else 2
    _e2.run_matrix('C06', 'oracle_values', [(c, 'L', bound) for c in lcfgs], res,
                   f'mode L, every source line, preemption bound {bound}')
    bcfgs = [c for c in cfgs if c.get('backend', 't') == 't' and c['n'] <= 3 and c['w'] <= 2 and c['b'] <= 2
             and len(c.get('consumers', [1])) == 1 and c.get('mode') != 'items']
    if tier == 'quick':
        bcfgs = [c for c in bcfgs if len(c.get('fail_fn') or {}) <= 1 and c.get('catch') in (None, True)]
    _e2.run_matrix('C06', 'oracle_values', [(c, 'B', 2) for c in bcfgs], res,
                   'mode B: visible operations, no reduction, preemption bound 2', cap=60000)
    res.coverage['preemption_bound_completed'] = bound
    return _e2.finish(res, 5000)


def replay(data):
    return _e2.replay('C06', data)
