"""C20: the profiling wrapper is transparent and counts truthfully.

For every E1 state (program up to a depth, including stages that raise and shared sub-pipelines) the
pipeline s is wrapped: P = ProfilingDataset(s).  In every state: the observation of P equals the
observation of s (full iteration, every partial iteration, indexing, errors and their position, length);
s itself is untouched (vars() of every stage, identity of its inputs); the hit / failed-hit counters of
every wrapper node equal the fetch counts measured independently by transparent tap stages inserted at
the same positions of an unprofiled twin pipeline."""
import collections
import itertools

from vf import build as B
from vf import common
from vf import observe as O
from vf import ref as R
from vf import seqmc

OPS = [
    ['map', 'add10'],
    ['filter', 'is_odd', True],
    ['slice', [1, None, None]],
    ['batch', 2, False],
    ['items'],
    ['idx', [0, 0, -1]],
    ['cache'],
    ['map_raise', 'ValueError', [1]],
    ['map_raise', 'FilterException', [2, 3]],
    ['catch'],
    ['unbatch'],
    ['map', 'pair'],
    ['tile', 2],
    ['copy'],
    ['keys', 'rev2'],
    ['prefetch', 1, 2],
    ['concat', 'self_map'],
    ['concat', 'list_2'],
    ['intersperse', 'self_map'],
    ['intersperse', 'list_2'],
    ['zip', 'self'],
    ['zip', 'self_map'],
    ['key_zip', 'self_map'],
    ['sort', 'sortkey', False],
    ['shard', 2, 1],
]
SOURCES = [
    ['dict', [['b', 3], ['a', 1], ['c', 2]], 'pickle'],
    ['list', [3, 1, 2], 'pickle'],
    ['list', [], 'pickle'],
    ['dict', [['a', 5]], 'copy'],
    ['special', 'falsy', True],         # None, 0, '', [], 0.0 as examples: no value may be taken for "no more data"
    ['special', 'falsy', False],
]


def tap_class():
    """A transparent counting stage, written against the public Dataset interface only."""
    from lazy_dataset import core

    class Tap(core.Dataset):
        def __init__(self, input_dataset, counts=None):
            self.input_dataset = input_dataset
            self.counts = counts if counts is not None else [0, 0]      # [attempts, failed]

        def copy(self, freeze=False):
            return Tap(self.input_dataset.copy(freeze=freeze), self.counts)

        @property
        def indexable(self):
            return self.input_dataset.indexable

        @property
        def ordered(self):
            return self.input_dataset.ordered

        def __len__(self):
            return len(self.input_dataset)

        def keys(self):
            return self.input_dataset.keys()

        def __iter__(self, with_key=False):
            it = self.input_dataset.__iter__(with_key=True) if with_key else iter(self.input_dataset)
            while True:
                try:
                    x = next(it)
                except StopIteration:
                    return
                except Exception:
                    self.counts[0] += 1
                    self.counts[1] += 1
                    raise
                self.counts[0] += 1
                yield x

        def __getitem__(self, item):
            self.counts[0] += 1
            try:
                return self.input_dataset[item]
            except Exception:
                self.counts[1] += 1
                raise
    return Tap


def tapify(ds, Tap):
    """Independent re-implementation of the wrapping: a Tap above every stage of a copy of the pipeline."""
    c = ds.copy()
    if hasattr(c, 'input_datasets'):
        c.input_datasets = [tapify(x, Tap) for x in c.input_datasets]
    if hasattr(c, 'input_dataset'):
        c.input_dataset = tapify(c.input_dataset, Tap)
    return Tap(c)


def tap_counts(node):
    """Pre-order list of [attempts, failed] of the tap tree."""
    out = [tuple(node.counts)]
    inner = node.input_dataset
    if hasattr(inner, 'input_datasets'):
        for x in inner.input_datasets:
            out += tap_counts(x)
    if hasattr(inner, 'input_dataset'):
        out += tap_counts(inner.input_dataset)
    return out


def prof_counts(node):
    out = [tuple(node.hit_count)]
    inner = node.input_dataset
    if hasattr(inner, 'input_datasets'):
        for x in inner.input_datasets:
            out += prof_counts(x)
    if hasattr(inner, 'input_dataset'):
        out += prof_counts(inner.input_dataset)
    return out


def structure(ds, depth=0):
    """Identity snapshot of a pipeline: every stage, its attributes and the identity of their values."""
    # public attributes and the inputs only: privately, lazily filled caches are not part of "the pipeline object"
    out = [(id(ds), type(ds).__name__, tuple(sorted((k, id(v)) for k, v in vars(ds).items() if not k.startswith('_'))))]
    for x in getattr(ds, 'input_datasets', ()):
        out += structure(x, depth + 1)
    if hasattr(ds, 'input_dataset'):
        out += structure(ds.input_dataset, depth + 1)
    return out


def drive(ds, scenario, n):
    """Run one consumer scenario; returns its observable outcome."""
    kind = scenario[0]
    if kind == 'iter':
        return O.run_iter(lambda: iter(ds), n + 3)
    if kind == 'partial':
        k = scenario[1]
        out = []
        it = iter(ds)
        try:
            for _ in range(k):
                out.append(O.canon(next(it)))
        except StopIteration:
            return out, 'StopIteration'
        except BaseException as e:      # noqa: BLE001
            return out, O.exc_name(e)
        finally:
            if hasattr(it, 'close'):
                it.close()
        return out, None
    if kind == 'index':
        return O.get_index(ds, scenario[1])[:2]
    if kind == 'items':
        try:
            it = ds.items()
        except BaseException as e:      # noqa: BLE001
            return [], O.exc_name(e)
        return O.run_iter(lambda: iter(it), n + 3)
    raise ValueError(scenario)


def check_state(ds, ref, program, st, report):
    from lazy_dataset.core import ProfilingDataset
    Tap = tap_class()
    n = ref.n()
    scenarios = [('iter',)] + [('partial', k) for k in range(0, n + 2)]
    if ref.indexable and ref.finite:
        scenarios += [('index', i) for i in range(-n - 1, n + 1)]
    if ref.items_mode == 'yes':
        scenarios.append(('items',))
    top = program['ops'][-1][0] if program['ops'] else program['source'][0]
    try:
        ln_s = O.impl_len(ds)
        before = structure(ds)
        P0 = ProfilingDataset(ds)
        ln_p = O.impl_len(P0)
        O.run_iter(lambda: iter(P0), n + 3)
        if structure(ds) != before:
            report(f'wrapped-pipeline-modified/{top}', 'wrapping and iterating the profiled pipeline changed public attributes '
                                                       '/ input identities of the wrapped pipeline')
    except BaseException as e:      # noqa: BLE001
        report(f'wrapping-raises/{top}/{type(e).__name__}', f'ProfilingDataset(s) raised {e}')
        return
    if ln_s != ln_p:
        report(f'length-differs/{top}', f'len(s)={ln_s} len(ProfilingDataset(s))={ln_p}')
    for sc in scenarios:
        st['transitions'] += 1
        try:
            with O.deadline(20):
                P = ProfilingDataset(ds)
                T = tapify(ds, Tap)
                plain = drive(ds, sc, n)
                got_p = drive(P, sc, n)
                got_t = drive(T, sc, n)
        except BaseException as e:      # noqa: BLE001
            report(f'harness-scenario-raises/{top}/{type(e).__name__}', f'{sc}: {e}')
            continue
        if got_t != plain:
            raise common.HarnessError(f'the tap twin is not transparent: {seqmc.describe(program)} {sc}: {got_t} vs {plain}')
        if got_p != plain:
            kind = 'items' if sc[0] == 'items' else ('index' if sc[0] == 'index' else 'iteration')
            sub = f'/{got_p[1]}' if isinstance(got_p[1], str) and got_p[1] != plain[1] and sc[0] != 'index' else ''
            report(f'not-transparent/{kind}/{top}{sub}', f'scenario {sc}: wrapped pipeline gave {got_p}, plain pipeline {plain}')
            continue
        if sc[0] == 'partial' and any(op[0] in ('prefetch', 'parmap') for op in program['ops']):
            continue        # how far a free-running prefetch thread got when the consumer stopped is not deterministic
        pc, tc = prof_counts(P), tap_counts(T)
        if pc != tc:
            which = 'failed-hits' if [c[0] for c in pc] == [c[0] for c in tc] else 'hits'
            report(f'wrong-{which}/{sc[0]}/{top}', f'scenario {sc}: per-stage (hits, failed) {pc}; independent taps count {tc}')


def _task(args):
    source, first, depth = args
    st = collections.Counter()
    viols = {}
    samples = []

    def rec(ds, ref, program, d, tags):
        st['states'] += 1
        common.gc_tick(50)

        def report(kind, detail):
            key = kind + ''.join('@' + t for t in sorted(tags))
            if key not in viols:
                viols[key] = common.Violation('C20', key, f'{seqmc.describe(program)}: {detail}',
                                              {'engine': 'seqmc-profiling', 'program': program}).to_json()
        check_state(ds, ref, program, st, report)
        if d == depth and not samples:
            samples.append({'program': program})
        if d >= depth:
            return
        for op in OPS:
            try:
                cref = R.apply(ref, op)
            except R.Refuse:
                continue
            if not cref.finite:
                continue
            try:
                cds = B.apply(ds, ref, op)
            except BaseException:       # noqa: BLE001
                continue
            rec(cds, cref, {'source': program['source'], 'ops': program['ops'] + [op]}, d + 1,
                tags | seqmc.structural_tags(ref, op))

    ref = R.source(source)
    ds = B.source(source)
    if first is None:
        rec(ds, ref, {'source': source, 'ops': []}, depth, frozenset())       # the source state only
    else:
        try:
            cref = R.apply(ref, first)
            cds = B.apply(ds, ref, first)
        except (R.Refuse, Exception):       # noqa: BLE001
            return st, [], []
        rec(cds, cref, {'source': source, 'ops': [first]}, 1, seqmc.structural_tags(ref, first))
    return st, list(viols.values()), samples


def random_pipelines(tier):
    """Pipelines with a seeded per-epoch reshuffle: the plain pipeline and the profiled twin are built from equally
    seeded fresh generators and compared epoch by epoch (errors included)."""
    import lazy_dataset
    import numpy as np
    from lazy_dataset.core import ProfilingDataset
    from vf import fns
    viols, count = [], 0

    def build(prog, seed, n):
        ds = lazy_dataset.new({f'k{i}': i for i in range(n)})
        for j, op in enumerate(prog):
            rng = np.random.RandomState(seed + j)
            if op == 'reshuffle':
                ds = ds.shuffle(True, rng=rng)
            elif op == 'local':
                ds = ds.shuffle(True, rng=rng, buffer_size=2)
            elif op == 'map':
                ds = ds.map(fns.add10)
            elif op == 'batch':
                ds = ds.batch(2)
            elif op == 'catch':
                ds = ds.catch()
            elif op == 'prefetch1':
                ds = ds.prefetch(1, 2)
            elif op == 'prefetch2':
                ds = ds.prefetch(2, 2)
            elif op == 'items':
                ds = ds.items()
            elif op == 'freeze':
                ds = ds.copy(freeze=True)
            elif op == 'filter':
                ds = ds.filter(fns.is_small)
        return ds

    tails = ['map', 'batch', 'catch', 'prefetch1', 'prefetch2', 'items', 'freeze', 'filter']
    progs = [[r] + list(t) for r in ('reshuffle', 'local') for k in (0, 1, 2)
             for t in itertools.product(tails, repeat=k)]
    for prog in progs:
        for n in (0, 3):
            for seed in range(2 if tier == 'quick' else 6):
                try:
                    a = build(prog, seed, n)
                    plain = [O.run_iter(lambda: iter(a), n + 3) for _ in range(2)]
                except BaseException:       # noqa: BLE001
                    continue
                if any(e is not None for _, e in plain):
                    continue        # not a working pipeline (C01's business)
                count += 1
                try:
                    P = ProfilingDataset(build(prog, seed, n))
                    prof = [O.run_iter(lambda: iter(P), n + 3) for _ in range(2)]
                    frozen = ProfilingDataset(build(prog, seed, n)).copy(freeze=True)
                    fz = [O.run_iter(lambda: iter(frozen), n + 3) for _ in range(2)]
                    want_fz = build(prog, seed, n).copy(freeze=True)
                    wf = [O.run_iter(lambda: iter(want_fz), n + 3) for _ in range(2)]
                except BaseException as e:      # noqa: BLE001
                    prof, fz, wf = f'raises {type(e).__name__}', None, None
                if prof != plain:
                    viols.append(common.Violation(
                        'C20', f'not-transparent/random-pipeline/{prog[-1]}',
                        f'{prog} seed={seed} n={n}: profiled pipeline gives {prof}, plain pipeline {plain}',
                        {'engine': 'random-pipelines', 'prog': prog}))
                elif fz != wf:
                    viols.append(common.Violation(
                        'C20', f'not-transparent/frozen-copy/{prog[-1]}',
                        f'{prog} seed={seed} n={n}: copy(freeze=True) of the profiled pipeline gives {fz}, of the plain '
                        f'pipeline {wf}', {'engine': 'random-pipelines', 'prog': prog}))
    return count, viols


def prefetch_clause(res, tier):
    """Behind thread prefetch: counters are shared by the copies the workers use; explored over all schedules."""
    from vf.checks import _e2
    cfgs = [dict(entry='prefetch', n=n, w=2, b=2, backend='t', profile=True) for n in (2, 3)]
    cfgs += [dict(entry='prefetch', n=3, w=1, b=2, backend='t', profile=True),
             dict(entry='prefetch', n=3, w=2, b=2, backend='t', profile=True, fail_fn={1: 'ValueError'})]
    _e2.run_matrix('C20', 'oracle_profile', [(c, 'D', None) for c in cfgs], res,
                   'E2: ProfilingDataset(ds.map(f).prefetch(w, b)), all schedules')
    bound = 1 if tier == 'quick' else 2
    _e2.run_matrix('C20', 'oracle_profile', [(c, 'L', bound) for c in cfgs if c['n'] == 2 or (tier == 'thorough' and c['w'] == 2)],
                   res, f'E2 mode L: every source line (the counter updates included) a scheduling point, preemption bound {bound}',
                   cap=60000)


def run(tier):
    res = common.Result()
    depth = 2 if tier == 'quick' else 3
    tasks = [(s, None, depth) for s in SOURCES] + [(s, op, depth) for s in SOURCES for op in OPS]
    total = collections.Counter()
    samples = []
    for st, viols, smp in common.pmap(_task, tasks, timeout=2500):
        total.update(st)
        samples += smp
        res.violations.extend(common.Violation.from_json(v) for v in viols)
    prefetch_clause(res, tier)
    cnt, rv = random_pipelines(tier)
    total['states'] += cnt
    total['transitions'] += cnt
    seen = set()
    for x in rv:
        if x.key not in seen:
            seen.add(x.key)
            res.violations.append(x)
    res.violations.sort(key=lambda v: (len(v.replay.get('program', {}).get('ops', [])), v.key))
    cov = res.coverage
    cov['states'] = cov.get('states', 0) + total['states']
    cov['transitions'] = cov.get('transitions', 0) + total['transitions']
    cov.update(traces_validated_against_impl=total['transitions'] + cov.get('executions', 0), exhaustive=True,
               samples=common.sample(samples, 3) + cov.get('samples', []),
               rule=f'states = programs over {len(OPS)} ops (single- and multi-input stages, raising stages, shared '
                    f'sub-pipelines) to depth {depth} x {len(SOURCES)} sources; transitions = consumer scenarios per state (full '
                    f'iteration, partial iteration for every k, every index, items()); each scenario runs the plain pipeline, the '
                    f'profiled one and an independently tapped twin')
    res.assumptions = ['fetch counts are measured by a transparent tap stage written against the public Dataset interface; '
                       'the harness aborts (exit 2) if the tapped twin is not itself transparent',
                       'lost updates of the counters between bytecodes of one line are below the scheduling granularity']
    if total['states'] < 300:
        res.harness_errors.append('non-vacuity floor: fewer than 300 states')
    return res


def replay(data):
    r = data['replay']
    res = common.Result()
    if r.get('engine') == 'random-pipelines':
        cnt, rv = random_pipelines('quick')
        res.violations = [x for x in rv if x.replay['prog'] == r['prog']][:1]
        res.coverage.update(states=1, transitions=cnt)
        return res
    if r.get('engine') != 'seqmc-profiling':
        from vf.checks import _e2
        return _e2.replay('C20', data)
    program = r['program']
    ref = R.source(program['source'])
    ds = B.source(program['source'])
    tags = frozenset()
    for op in program['ops']:
        tags = tags | seqmc.structural_tags(ref, op)
        ds2 = B.apply(ds, ref, op)
        ref = R.apply(ref, op)
        ds = ds2
    st = collections.Counter()
    check_state(ds, ref, program, st,
                lambda k, d: res.violations.append(common.Violation('C20', k + ''.join('@' + t for t in sorted(tags)), d, r)))
    res.coverage.update(states=1, transitions=st['transitions'])
    return res
