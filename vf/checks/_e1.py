"""Shared driver of the three E1 checks (C01 iteration, C02 length/indexing, C03 keys/items/lookup)."""
from vf import common, seqmc

ASSUME = [
    'reference interpreter vf/ref.py is the specification of every combinator (boring list code, no lazy_dataset import)',
    'constructions outside the documented preconditions (ref.Refuse) are not states and are not judged',
    'prefetch / parallel map stages run on real threads under the OS schedule here; schedules are explored by C04-C07',
    'depth bound: programs deeper than the completed depth are not covered',
]


def run(prop, what, tier):
    res = common.Result()
    res.assumptions = list(ASSUME)
    if tier == 'quick':
        seqmc.explore(prop, what, 2, seqmc.FULL, seqmc.SOURCES, res, 'full alphabet, depth 2')
        seqmc.explore(prop, what, 3, seqmc.CORE, seqmc.SOURCES[:8], res, 'core alphabet, depth 3')
    else:
        seqmc.explore(prop, what, 3, seqmc.FULL, seqmc.SOURCES, res, 'full alphabet, depth 3')
        seqmc.explore(prop, what, 4, seqmc.CORE, seqmc.SOURCES[:6], res, 'core alphabet, depth 4')
    seqmc.shortest_first(res)
    cov = res.coverage
    cov['traces_validated_against_impl'] = cov.get('states', 0)
    cov['exhaustive'] = True
    cov['rule'] = ('every program over the stated alphabet up to the stated depth is built on the real library and '
                   'on the reference interpreter; a state is one program, a transition one combinator application '
                   '(including those outside the documented domain, counted in outside_domain)')
    floor = 5000 if tier == 'quick' else 50000
    if cov.get('states', 0) < floor:
        res.harness_errors.append(f'non-vacuity floor: only {cov.get("states", 0)} states explored (< {floor})')
    return res


def replay(prop, what, data):
    res = common.Result()
    program = data['replay']['program']
    res.violations = [common.Violation.from_json(v) for v in
                      seqmc.replay_program(prop, data['replay'].get('what', what), program)]
    # determinism of the replay itself
    again = seqmc.replay_program(prop, data['replay'].get('what', what), program)
    if [v['key'] for v in again] != [v.key for v in res.violations]:
        raise common.HarnessError('replay is not deterministic')
    res.coverage = {'states': 1, 'transitions': len(program['ops'])}
    return res
