"""C09: examples handed out are isolated from the stored data.

E3: all histories (up to a depth) of "access an example by some path, mutate what was returned in place"
over every storage mode (new(dict|list) x pickle|copy|wu, memory cache, disk cache); after every event and
at the end every access path must still return a value deep-equal to the pristine snapshot."""
import collections
import copy
import itertools
import shutil
import tempfile

from vf import common

PRISTINE = [
    {'x': [1, 2], 'y': {'z': 1}, 'id': 0, 'h': ['spk', [10, 11], {'q': 1}, ([5], 'u')]},
    {'x': [3], 'y': {'z': 2}, 'id': 1, 'h': [0, [], {'q': [2]}, ([6, 7], 'v')]},
]
KEYS = ['a', 'b']
N = len(PRISTINE)


BIG = {'on': False}


def pristine():
    data = copy.deepcopy(PRISTINE)
    if BIG['on']:
        import numpy as np
        for i, ex in enumerate(data):
            ex['arr'] = np.arange(8192, dtype=np.float64) + i       # 64 KiB contiguous buffer
    return data


def deq(a, b):
    """Deep equality that understands numpy arrays."""
    import numpy as np
    if isinstance(a, np.ndarray) or isinstance(b, np.ndarray):
        return isinstance(a, np.ndarray) and isinstance(b, np.ndarray) and a.shape == b.shape and bool((a == b).all())
    if isinstance(a, dict):
        return isinstance(b, dict) and a.keys() == b.keys() and all(deq(a[k], b[k]) for k in a)
    if isinstance(a, (list, tuple)):
        return type(a) is type(b) and len(a) == len(b) and all(deq(x, y) for x, y in zip(a, b))
    return a == b


def make(obj, tmp):
    """Returns (dataset, keyed, original container)."""
    import lazy_dataset
    kind, mode = obj
    BIG['on'] = kind.endswith('+array')
    kind = kind.replace('+array', '')
    data = pristine()
    if kind == 'dict':
        orig = {k: v for k, v in zip(KEYS, data)}
        return lazy_dataset.new(orig, immutable_warranty=mode), True, orig
    if kind == 'list':
        orig = list(data)
        if mode == 'wu':
            return lazy_dataset.core.from_list(orig, immutable_warranty='wu'), False, orig
        return lazy_dataset.new(orig, immutable_warranty=mode), False, orig
    orig = {k: v for k, v in zip(KEYS, data)}
    base = lazy_dataset.new(orig)
    if kind == 'cache':
        return base.cache(), True, orig
    if kind == 'cache-of-copy':
        return lazy_dataset.new(orig, immutable_warranty='copy').cache(), True, orig
    if kind == 'diskcache':
        return base.diskcache(cache_dir=tempfile.mkdtemp(prefix='verif_c09_dc_', dir=tmp)), True, orig
    if kind == 'eager-cache':
        return base.map(dict).cache(lazy=False), True, orig
    if kind == 'zip-cache':
        # examples are TUPLES (immutable containers) of mutable examples
        return base.zip(base).map(_first).cache(), False, orig
    if kind == 'pair-cache':
        return base.map(_pair).map(_first).cache(), True, orig
    if kind == 'list-of-tuples':
        orig = [(v, [i]) for i, v in enumerate(data)]
        return lazy_dataset.new(orig).map(_first), False, orig
    if kind == 'nested-tuple-cache':
        # tuples all the way down to the mutable example: "immutable" only at first sight
        return base.map(_nest).cache(), True, orig
    if kind == 'key-zip-items-cache':
        return base.key_zip(base).items().map(_first).cache(), False, orig
    if kind == 'key-zip-diskcache':
        return base.key_zip(base).map(_first).diskcache(
            cache_dir=tempfile.mkdtemp(prefix='verif_c09_dc_', dir=tmp)), True, orig
    raise ValueError(obj)


def _pair(ex):
    return (ex, [ex['id']])


def _nest(ex):
    return ((ex, 1), 'label')


def _first(t):
    """Keeps the tuple (that is what is stored / cached) but presents its first member for the comparison:
    the harness mutates the member it is handed, which lives inside the stored tuple."""
    return t


OBJECTS = [('dict', 'pickle'), ('dict', 'copy'), ('list', 'pickle'), ('list', 'copy'), ('list', 'wu'),
           ('cache', None), ('cache-of-copy', None), ('diskcache', None), ('eager-cache', None),
           ('zip-cache', None), ('pair-cache', None), ('list-of-tuples', None), ('key-zip-diskcache', None),
           ('nested-tuple-cache', None), ('key-zip-items-cache', None),
           ('cache+array', None), ('dict+array', 'pickle'), ('list+array', 'wu'), ('diskcache+array', None),
           ('eager-cache+array', None)]

PATHS = ['idx', 'neg', 'key', 'slice', 'iter', 'items', 'copy']


def access(ds, keyed, path, e):
    """Fetch example e through the given path; None if the path does not apply.  For tuple-valued datasets the
    first member of the tuple is what is compared and mutated."""
    v = _access(ds, keyed, path, e)
    while isinstance(v, tuple):
        v = next(m for m in v if not isinstance(m, (str, int, float, bytes, type(None))))
    return v


def _access(ds, keyed, path, e):
    if path == 'idx':
        return ds[e]
    if path == 'neg':
        return ds[e - N]
    if path == 'key':
        return ds[KEYS[e]] if keyed else None
    if path == 'slice':
        return ds[e:][0]
    if path == 'iter':
        return list(ds)[e]
    if path == 'items':
        return list(ds.items())[e][1] if keyed else None
    if path == 'copy':
        return ds.copy()[e]
    raise ValueError(path)


def mutate(ex, depth):
    if depth == 1:
        ex['x'] = 'MUT'
        ex['new'] = 1
        del ex['id']
    else:
        ex['x'].append(99)
        ex['y']['z'] = 'MUT'
        # containers that sit behind scalars inside a list, and inside a tuple
        ex['h'][1].append('MUT')
        ex['h'][2]['q'] = 'MUT'
        ex['h'][3][0].append('MUT')
        if 'arr' in ex:
            ex['arr'][:3] = -1.0          # in place, inside the (possibly shared) buffer


def read_all(ds, keyed):
    """Every access path for every example; returns the first deviation from the pristine snapshot."""
    want = pristine()
    for path in PATHS:
        for e in range(N):
            try:
                got = access(ds, keyed, path, e)
            except Exception as ex:     # noqa: BLE001
                return path, e, f'raised {type(ex).__name__}: {str(ex)[:60]}'
            if got is not None and not deq(got, want[e]):
                return path, e, got
    return None


def check_object(args):
    obj, depth, tier = args
    st = collections.Counter()
    viols = {}
    tmp = tempfile.mkdtemp(prefix='verif_c09_', dir='/var/tmp')

    def bad(key, what, hist):
        if key not in viols:
            viols[key] = common.Violation('C09', key, f'{obj}: {what}',
                                          {'engine': 'histmc', 'object': list(obj), 'history': hist}).to_json()
    try:
        events = [(p, e, d) for p in PATHS for e in range(N) for d in (1, 2)]
        if 'diskcache' in obj[0] and tier == 'quick':
            events = [ev for ev in events if ev[1] == 0 or ev[0] in ('idx', 'iter')]
        _, keyed, _ = make(obj, tmp)
        if not keyed:
            events = [ev for ev in events if ev[0] not in ('key', 'items')]
        serialising = obj in (('dict', 'pickle'), ('list', 'pickle'), ('list', 'wu'), ('dict+array', 'pickle'),
                              ('list+array', 'wu'))
        for d in range(1, depth + 1):
            for hist in itertools.product(events, repeat=d):
                st['states'] += 1
                ds, keyed, orig = make(obj, tmp)
                want = pristine()
                for n, (path, e, md) in enumerate(hist):
                    st['transitions'] += 1
                    try:
                        got = access(ds, keyed, path, e)
                    except Exception as ex:     # noqa: BLE001
                        bad(f'access-raises/{path}/{type(ex).__name__}', f'history {list(hist[:n + 1])}: {ex}',
                            [list(h) for h in hist[:n + 1]])
                        break
                    if not deq(got, want[e]):
                        prev = hist[n - 1][0] if n else None
                        bad(f'stored-data-changed/{obj[0]}-{obj[1]}/read-by-{path}',
                            f'history {list(hist[:n + 1])}: access by {path} of example {e} returned {got}',
                            [list(h) for h in hist[:n + 1]])
                        break
                    mutate(got, md)
                else:
                    dev = read_all(ds, keyed)
                    if dev is not None:
                        bad(f'stored-data-changed/{obj[0]}-{obj[1]}/read-by-{dev[0]}',
                            f'after history {list(hist)}: access by {dev[0]} of example {dev[1]} returned {dev[2]}',
                            [list(h) for h in hist])
                del ds
        # mutating the original container after construction (serialising modes only)
        if serialising:
            st['states'] += 1
            ds, keyed, orig = make(obj, tmp)
            for v in (orig.values() if isinstance(orig, dict) else orig):
                mutate(v, 2)
                mutate(v, 1)
            if isinstance(orig, dict):
                orig['zz'] = {'x': 0}
            else:
                orig.append({'x': 0})
            dev = read_all(ds, keyed)
            lens_ok = len(ds) == N and len(list(ds)) == N
            if dev is not None or not lens_ok:
                bad(f'original-container-aliased/{obj[0]}-{obj[1]}',
                    f'mutating the container passed to the constructor changed the dataset: {dev} len={len(ds)}', [])
    finally:
        shutil.rmtree(tmp, ignore_errors=True)
    return st, list(viols.values())


def check_disk_faults(args):
    """Environment deviation: the K-th write of the disk cache fails (disk full), once.  The access that hits the fault may
    fail; whatever IS handed out, then or later, is isolated from what later accesses return."""
    k, tier = args
    import errno
    import diskcache.core
    st = collections.Counter()
    viols = {}
    tmp = tempfile.mkdtemp(prefix='verif_c09f_', dir='/var/tmp')
    obj = ('diskcache', None)
    real_store = diskcache.core.Disk.store
    calls = {'n': 0, 'armed': True}

    def store(self, *a, **kw):
        i = calls['n']
        calls['n'] += 1
        if calls['armed'] and i == k:
            calls['armed'] = False
            raise OSError(errno.ENOSPC, 'No space left on device (injected)')
        return real_store(self, *a, **kw)

    def bad(key, what, hist):
        if key not in viols:
            viols[key] = common.Violation('C09', key, f'{obj} with write {k} failing: {what}',
                                          {'engine': 'disk-fault', 'k': k, 'history': hist}).to_json()
    diskcache.core.Disk.store = store
    try:
        events = [(p, e, d) for p in ('idx', 'key', 'iter', 'copy') for e in range(N) for d in (1, 2)
                  if tier == 'thorough' or d == 2]
        for hist in itertools.product(events, repeat=2):
            st['states'] += 1
            calls.update(n=0, armed=True)
            ds, keyed, orig = make(obj, tmp)
            want = pristine()
            ok = True
            for n, (path, e, md) in enumerate(hist):
                st['transitions'] += 1
                try:
                    got = access(ds, keyed, path, e)
                except Exception:     # noqa: BLE001   (the faulted access may be refused; nothing was handed out)
                    continue
                if not deq(got, want[e]):
                    bad(f'stored-data-changed/diskcache-write-fault/read-by-{path}',
                        f'history {list(hist[:n + 1])}: access by {path} of example {e} returned {got}',
                        [list(h) for h in hist[:n + 1]])
                    ok = False
                    break
                mutate(got, md)
            if ok:
                for path in ('idx', 'iter', 'key'):
                    for e in range(N):
                        try:
                            got = access(ds, keyed, path, e)
                        except Exception:     # noqa: BLE001
                            continue
                        if not deq(got, want[e]):
                            bad(f'stored-data-changed/diskcache-write-fault/read-by-{path}',
                                f'after history {list(hist)}: access by {path} of example {e} returned {got}',
                                [list(h) for h in hist])
            del ds
    finally:
        diskcache.core.Disk.store = real_store
        shutil.rmtree(tmp, ignore_errors=True)
    st['faulted_runs'] = st['states'] if not calls['armed'] or st['states'] else 0
    return st, list(viols.values())


def run(tier):
    res = common.Result()
    depth = 2 if tier == 'quick' else 3
    tasks = []
    for obj in OBJECTS:
        d = depth
        if 'diskcache' in obj[0] or obj[0].endswith('+array'):
            d = min(depth, 2)
        tasks.append((obj, d, tier))
    total = collections.Counter()
    for st, viols in common.pmap(check_object, tasks):
        total.update(st)
        res.violations.extend(common.Violation.from_json(v) for v in viols)
    for st, viols in common.pmap(check_disk_faults, [(k, tier) for k in range(0, 4 if tier == 'quick' else 8)]):
        total.update(st)
        res.violations.extend(common.Violation.from_json(v) for v in viols)
    # two / three threads fetch the same cold example concurrently and mutate what they got (E2, all schedules of
    # the visible operations with up to 2 preemptions, and every source line with 1 preemption)
    from vf.checks import _e2
    cfgs = [dict(entry='cache_threads', kind=k, n=2, w=w, b=1, index=i, copies=c)
            for k in ('cache', 'diskcache') for w, i, c in ((2, 0, False), (2, 1, True), (3, 0, True))
            if not (k == 'diskcache' and w == 3 and tier == 'quick')]
    _e2.run_matrix('C09', 'oracle_isolated', [(c, 'B', 2) for c in cfgs], res,
                   'threads on one cold cache entry: visible operations, preemption bound 2', cap=60000)
    deep = [c for c in cfgs if c['w'] == 2 and (tier == 'thorough' or (c['kind'] == 'cache' and not c['copies']))]
    _e2.run_matrix('C09', 'oracle_isolated', [(c, 'L', 2) for c in deep], res,
                   'threads on one cold cache entry: every source line, preemption bound 2', cap=200000)
    shallow = [c for c in cfgs if c['w'] == 2 and c not in deep]        # empty in the thorough tier: all are in `deep`
    if shallow:
        _e2.run_matrix('C09', 'oracle_isolated', [(c, 'L', 1) for c in shallow], res,
                       'threads on one cold cache entry: every source line, preemption bound 1', cap=60000)
    res.violations.sort(key=lambda v: (len(v.replay.get('history', [])), v.key))
    cov = res.coverage
    total['states'] += cov.get('states', 0)
    total['transitions'] += cov.get('transitions', 0)
    res.coverage.update(
        states=total['states'], transitions=total['transitions'],
        traces_validated_against_impl=total['states'] + cov.get('executions', 0), exhaustive=True,
        rule=f'states = histories: every sequence of length 1..{depth} of events (access path in {PATHS}, example, '
             f'mutation depth 1|2) for each of {len(OBJECTS)} storage objects; after each event the accessed value and at the '
             f'end ALL access paths are compared with the pristine snapshot; transitions = events',
        samples=[{'object': ['cache', None], 'history': [['idx', 0, 2], ['neg', 0, 1]]},
                 {'object': ['list', 'wu'], 'history': [['iter', 1, 2], ['slice', 1, 2]]}] + cov.get('samples', []))
    res.assumptions = ["immutable_warranty='copy' stores the caller's objects (documented); mutation of the original container "
                       "is only judged for the serialising modes pickle / wu"]
    return res


def replay(data):
    r = data['replay']
    if r.get('engine') == 'schedmc':
        from vf.checks import _e2
        return _e2.replay('C09', data)
    res = common.Result()
    if r.get('engine') == 'disk-fault':
        st, viols = check_disk_faults((r['k'], 'thorough'))
        res.violations = [common.Violation.from_json(v) for v in viols]
        res.coverage.update(states=st['states'], transitions=st['transitions'])
        return res
    tmp = tempfile.mkdtemp(prefix='verif_c09_', dir='/var/tmp')
    try:
        obj = tuple(r['object'])
        ds, keyed, orig = make(obj, tmp)
        want = pristine()
        for path, e, md in r['history']:
            got = access(ds, keyed, path, e)
            if not deq(got, want[e]):
                res.violations.append(common.Violation('C09', f'stored-data-changed/{obj[0]}-{obj[1]}/read-by-{path}',
                                                       f'{got}', r))
                break
            mutate(got, md)
        else:
            dev = read_all(ds, keyed)
            if dev is not None:
                res.violations.append(common.Violation('C09', f'stored-data-changed/{obj[0]}-{obj[1]}/read-by-{dev[0]}',
                                                       f'{dev}', r))
    finally:
        shutil.rmtree(tmp, ignore_errors=True)
    res.coverage.update(states=1, transitions=len(r['history']))
    return res
