"""C13: explicit seeds reproduce orders; frozen copies stay frozen; copies are faithful.

Differential oracle (no expected orders): all pipelines of depth <= D over a small alphabet that contain at
least one random stage x seeds x generator kinds, built several times with equally seeded generators while
the global numpy state is set adversarially; plus copy() of every Dataset subclass found by reflection."""
import collections
import itertools

import numpy as np

from vf import common

OPS = ['reshuffle', 'local', 'onetime', 'apply', 'apply_reshuffle', 'map', 'slice', 'batch', 'concat', 'filter', 'catch', 'tile2',
       'plain_first', 'plain_last', 'intersperse_plain']
RANDOM = {'reshuffle', 'local', 'onetime', 'apply', 'apply_reshuffle'}
EPOCHS = 3


class ApplyShuffle:
    """The documented way to implement reshuffle by hand with apply(lazy=True)."""

    def __init__(self, rng):
        self.rng = rng
        self.permutation = None

    def __call__(self, ds):
        if self.permutation is None:
            self.permutation = np.arange(len(ds))
        self.rng.shuffle(self.permutation)
        return ds[self.permutation]


class ApplyReshuffle:
    """A lazily applied function that returns a dataset which is itself still random."""

    def __init__(self, rng):
        self.rng = rng

    def __call__(self, ds):
        return ds.shuffle(True, rng=self.rng)


def add1(x):
    return x + 1 if isinstance(x, int) else x


def keep(x):
    return True


def mkrng(kind, seed):
    return np.random.RandomState(seed) if kind == 'rs' else np.random.default_rng(seed)


def build(prog, seed, kind, n=5):
    """Returns the dataset or None if the construction is not valid for this program."""
    import lazy_dataset
    ds = lazy_dataset.new({f'k{i}': i for i in range(n)})
    for j, op in enumerate(prog):
        rng = mkrng(kind, seed * 31 + j)
        try:
            if op == 'reshuffle':
                ds = ds.shuffle(True, rng=rng)
            elif op == 'local':
                ds = ds.shuffle(True, rng=rng, buffer_size=2)
            elif op == 'onetime':
                ds = ds.shuffle(False, rng=rng)
            elif op == 'apply':
                ds = ds.apply(ApplyShuffle(rng), lazy=True)
            elif op == 'apply_reshuffle':
                ds = ds.apply(ApplyReshuffle(rng), lazy=True)
            elif op == 'catch':
                ds = ds.catch()
            elif op == 'tile2':
                ds = ds.tile(2)
            elif op == 'map':
                ds = ds.map(add1)
            elif op == 'slice':
                ds = ds[1:]
            elif op == 'batch':
                ds = ds.batch(2)
            elif op == 'concat':
                ds = ds.concatenate(ds.map(add1))
            elif op == 'filter':
                ds = ds.filter(keep)
            elif op in ('plain_first', 'plain_last', 'intersperse_plain'):
                # a deterministic dataset next to the random one: the combination is as random as its random input
                plain = lazy_dataset.new({f'p{j}_{i}': 100 * (j + 1) + i for i in range(3)})
                ds = plain.concatenate(ds) if op == 'plain_first' else \
                    ds.concatenate(plain) if op == 'plain_last' else ds.intersperse(plain)
        except Exception:       # noqa: BLE001  (e.g. slicing a non-indexable stage: not a pipeline)
            return None
    return ds


def scramble(i):
    np.random.seed(1000 + 7 * i)


def epochs(ds, k=EPOCHS, salt=0):
    out = []
    for e in range(k):
        scramble(salt + e)
        try:
            out.append(repr(list(ds)))
        except Exception as ex:     # noqa: BLE001
            out.append(f'raises {type(ex).__name__}')
    return out


def check_program(args):
    prog, seeds, kinds = args
    st = collections.Counter()
    viols = {}

    def bad(key, what, **kw):
        if key not in viols:
            viols[key] = common.Violation('C13', key, f'pipeline {list(prog)} {kw}: {what}',
                                          {'engine': 'differential', 'prog': list(prog), **kw}).to_json()

    for kind in kinds:
        for seed in seeds:
            scramble(seed)
            a = build(prog, seed, kind)
            if a is None:
                st['not_a_pipeline'] += 1
                return st, []
            common.gc_tick(50)
            st['states'] += 1
            ea = epochs(a, salt=10)
            if any(x.startswith('raises') for x in ea):
                st['not_iterable'] += 1
                continue
            scramble(seed + 99)
            eb = epochs(build(prog, seed, kind), salt=50)
            st['transitions'] += 2 * EPOCHS
            if ea != eb:
                bad('rebuild-differs', f'two equally seeded builds differ: {ea} vs {eb}', seed=seed, kind=kind)
            # copy() of a freshly built pipeline
            scramble(seed + 5)
            c = build(prog, seed, kind)
            try:
                cc = c.copy()
            except Exception as ex:     # noqa: BLE001
                bad(f'copy-raises/{type(ex).__name__}', str(ex)[:80], seed=seed, kind=kind)
                cc = None
            if cc is not None:
                ec = epochs(cc, salt=70)
                st['transitions'] += EPOCHS
                if ec != ea:
                    last_random = [op for op in prog if op in RANDOM][-1]
                    shared = any(r in prog and any(c in prog[list(prog).index(r):] for c in ('concat', 'tile2'))
                                 for r in ('reshuffle', 'apply_reshuffle'))
                    bad('copy-differs/reshuffle-object-shared-by-two-branches' if shared else
                        f'copy-differs/{last_random}' if len([op for op in prog if op in RANDOM]) == 1 else 'copy-differs',
                        f'copy() of a fresh build gives {ec}, the build gives {ea}', seed=seed, kind=kind)
            # behind prefetch
            for w, b in ((1, 2), (2, 2)):
                scramble(seed + 6)
                p = build(prog, seed, kind)
                try:
                    pf = p.prefetch(w, b)
                except Exception:       # noqa: BLE001
                    continue
                ep = epochs(pf, salt=90)
                st['transitions'] += EPOCHS
                if any(x.startswith('raises') for x in ep):
                    if w == 1:
                        bad('prefetch-raises', f'prefetch({w},{b}) gives {ep}', seed=seed, kind=kind)
                    continue
                if ep != ea:
                    bad(f'prefetch-differs/w{w}', f'behind prefetch({w},{b}): {ep}, plain: {ea}', seed=seed, kind=kind)
            # frozen / ordered clauses
            reshuffles = any(op in ('reshuffle', 'local', 'apply', 'apply_reshuffle') for op in prog)
            try:
                ordered = a.ordered
            except Exception:       # noqa: BLE001
                ordered = None
            if reshuffles and ordered is not False:
                bad('reshuffling-reports-ordered', f'ordered={ordered}', seed=seed, kind=kind)
            if not reshuffles and len(set(ea)) != 1:
                bad('one-time-shuffle-not-fixed', f'epochs {ea}', seed=seed, kind=kind)
            if all(op != 'local' for op in prog):
                scramble(seed + 7)
                f = build(prog, seed, kind)
                try:
                    fz = f.copy(freeze=True)
                    ef = epochs(fz, salt=110)
                except Exception as ex:     # noqa: BLE001
                    bad(f'freeze-raises/{type(ex).__name__}', str(ex)[:80], seed=seed, kind=kind)
                else:
                    st['transitions'] += EPOCHS
                    if len(set(ef)) != 1:
                        bad('frozen-copy-not-fixed', f'copy(freeze=True) epochs {ef}', seed=seed, kind=kind)
                    elif sorted(ef[0]) != sorted(ea[0]) and 'raises' not in ef[0]:
                        bad('frozen-copy-different-content', f'{ef[0]} vs {ea[0]}', seed=seed, kind=kind)
    return st, list(viols.values())


# --------------------------------------------------------------------------------------------------
# copy() preserves every configuration parameter of every stage

IGNORE = {'_keys', '_permutation', '_do_cache'}


def instances():
    import lazy_dataset
    from lazy_dataset import core
    d = lazy_dataset.new({'a': 1, 'b': 2, 'c': 3}, name='nm')
    li = lazy_dataset.new([[1, 2], [3]], name='ln')
    rng = np.random.RandomState(3)
    inst = {
        'DictDataset': core.DictDataset({'a': 1, 'b': 2}, name='dd'),
        'ListDataset': core.ListDataset([1, 2, 3], name='ll'),
        'MapDataset': d.map(add1),
        'ParMapDataset': d.map(add1, num_workers=2, buffer_size=3, backend='dill_mp'),
        'ApplyDataset': d.apply(ApplyShuffle(rng), lazy=True),
        'CatchExceptionDataset': d.catch((ValueError, KeyError), warn=True),
        'PrefetchDataset': d.prefetch(2, 5, backend='mp', catch_filter_exception=(ValueError,)),
        'ReShuffleDataset': d.shuffle(True, rng=rng),
        'LocalShuffleDataset': d.shuffle(True, rng=rng, buffer_size=7),
        'SliceDataset': d[[2, 0]],
        'FilterDataset': d.filter(keep),
        'ConcatenateDataset': d.concatenate(d.map(add1), d[1:]),
        'IntersperseDataset': d.intersperse(d.map(add1)),
        'ZipDataset': d.zip(d.map(add1)),
        'KeyZipDataset': d.key_zip(d.map(add1)),
        'ItemsDataset': d.items(),
        'BatchDataset': d.batch(2, drop_last=True),
        'UnbatchDataset': li.unbatch(),
        'DynamicBucketDataset': d.batch_dynamic_time_series_bucket(
            batch_size=3, len_key=add1, max_padding_rate=.3, max_total_size=20, expiration=4,
            max_buffered_examples=9, drop_incomplete=True, sort_key=add1, reverse_sort=True),
        'CacheDataset': d.cache(keep_mem_free='1 B'),
        'ProfilingDataset': core.ProfilingDataset(d.map(add1)),
    }
    return inst


def same(a, b, depth=0):
    from lazy_dataset import core
    if isinstance(a, core.Dataset):
        return isinstance(b, core.Dataset) and type(a) is type(b) and not diff_vars(a, b, depth + 1)
    if isinstance(a, (list, tuple)) and a and all(isinstance(x, core.Dataset) for x in a):
        return isinstance(b, (list, tuple)) and len(a) == len(b) and all(same(x, y, depth) for x, y in zip(a, b))
    if isinstance(a, np.ndarray):
        return isinstance(b, np.ndarray) and np.array_equal(a, b)
    if callable(a) or hasattr(a, 'shuffle'):
        return a is b or (type(a) is type(b) and getattr(a, '__dict__', None) == getattr(b, '__dict__', 1)
                          and not hasattr(a, 'shuffle'))
    try:
        return bool(a == b)
    except Exception:       # noqa: BLE001
        return a is b


def diff_vars(a, b, depth=0):
    out = []
    if depth > 6:
        return out
    va, vb = vars(a), vars(b)
    for k, v in va.items():
        if k in IGNORE:
            continue
        if k not in vb:
            if not k.startswith('_'):           # private, possibly lazily filled state is not a configuration parameter
                out.append(f'{type(a).__name__}.{k} missing in the copy')
        elif not same(v, vb[k], depth):
            out.append(f'{type(a).__name__}.{k}: {v!r} -> {vb[k]!r}')
    return out


def check_copies(res):
    from lazy_dataset import core
    inst = instances()
    classes = [c for c in vars(core).values() if isinstance(c, type) and issubclass(c, core.Dataset)
               and c is not core.Dataset]
    n = 0
    uncovered = []
    for c in classes:
        ds = inst.get(c.__name__)
        if ds is None or type(ds) is not c:
            uncovered.append(c.__name__)
            continue
        for freeze in (False, True):
            n += 1
            try:
                cp = ds.copy(freeze=freeze)
            except NotImplementedError:
                continue
            except Exception as e:      # noqa: BLE001
                res.violations.append(common.Violation('C13', f'copy-raises/{c.__name__}', f'{type(e).__name__}: {e}',
                                                       {'engine': 'copy-vars', 'cls': c.__name__}))
                continue
            if freeze and c.__name__ in ('ReShuffleDataset', 'ApplyDataset'):
                continue        # freezing replaces the stage by its frozen equivalent
            if type(cp) is not c:
                res.violations.append(common.Violation('C13', f'copy-changes-class/{c.__name__}', f'{type(cp).__name__}',
                                                       {'engine': 'copy-vars', 'cls': c.__name__}))
                continue
            for d in diff_vars(ds, cp):
                res.violations.append(common.Violation('C13', f'copy-drops-parameter/{d.split(":")[0].split(" ")[0]}',
                                                       f'{c.__name__}.copy(freeze={freeze}): {d}',
                                                       {'engine': 'copy-vars', 'cls': c.__name__}))
    res.coverage['copy_classes_checked'] = n
    res.coverage['copy_classes_without_instance'] = uncovered
    return n


PROC_OPS = ('reshuffle', 'onetime', 'map', 'tile2')
PROC_BACKENDS = ('mp', 'dill_mp', 'multiprocessing', 'concurrent_mp')


def check_process_backends(args):
    """The same comparison behind the real process-pool backends.  Runs in the checker's main process: the forked
    exploration workers are daemonic and may not have children."""
    prog, seed, kind = args
    st = collections.Counter()
    viols = {}

    def bad(key, what, **kw):
        if key not in viols:
            viols[key] = common.Violation('C13', key, f'pipeline {list(prog)} {kw}: {what}',
                                          {'engine': 'differential-proc', 'prog': list(prog), **kw}).to_json()
    scramble(seed)
    a = build(prog, seed, kind)
    if a is None:
        return st, []
    ea = epochs(a, k=2, salt=10)
    if any(x.startswith('raises') for x in ea):
        return st, []
    for backend in PROC_BACKENDS:
        scramble(seed + 8)
        p = build(prog, seed, kind)
        try:
            pf = p.prefetch(2, 2, backend=backend)
        except Exception as ex:       # noqa: BLE001
            bad(f'prefetch-build-raises/{backend}', f'{type(ex).__name__}: {ex}', seed=seed, kind=kind)
            continue
        ep = epochs(pf, k=2, salt=130)
        st['states'] += 1
        st['transitions'] += 2
        if any(x.startswith('raises') for x in ep):
            bad(f'prefetch-raises/{backend}', f'prefetch(2,2,{backend!r}) gives {ep}', seed=seed, kind=kind)
        elif ep != ea:
            bad(f'prefetch-differs/{backend}', f'behind prefetch(2,2,{backend!r}): {ep}, plain: {ea}', seed=seed, kind=kind)
    return st, list(viols.values())


def programs(depth):
    for d in range(1, depth + 1):
        for prog in itertools.product(OPS, repeat=d):
            if any(op in RANDOM for op in prog):
                yield prog


def run(tier):
    res = common.Result()
    depth = 3
    S = 3 if tier == 'quick' else 12
    base = (common.SEED * 17) % 1000
    seeds = list(range(base, base + S))
    kinds = ['rs', 'gen']
    total = collections.Counter()
    progs = list(programs(depth))
    for st, viols in common.pmap(check_program, [(p, seeds, kinds) for p in progs], chunksize=4):
        total.update(st)
        res.violations.extend(common.Violation.from_json(v) for v in viols)
    proc = [p for p in progs if len(p) <= 2 and all(op in PROC_OPS for op in p)]
    for p in proc:
        for kind in kinds:
            st, viols = check_process_backends((p, seeds[0], kind))
            total.update(st)
            res.violations.extend(common.Violation.from_json(v) for v in viols)
    n = check_copies(res)
    res.violations.sort(key=lambda v: (len(v.replay.get('prog', [])), v.key))
    res.coverage.update(
        states=total['states'] + n, transitions=total['transitions'] + n,
        traces_validated_against_impl=total['states'] + n, exhaustive=True, programs=len(progs),
        not_a_pipeline=total['not_a_pipeline'], process_backend_programs=len(proc),
        rule=f'states = (pipeline with >= 1 random stage of depth <= {depth} over {OPS}, seed in {seeds[0]}..{seeds[-1]}, '
             f'RandomState | default_rng) that the library accepts, plus one state per (Dataset subclass, freeze flag) of the '
             f'copy() comparison; transitions = epochs compared',
        samples=[{'prog': list(p)} for p in common.sample(progs, 4)])
    res.assumptions = ['differential oracle: equally seeded builds must agree; no expected order is written down',
                       'the global numpy state is re-seeded with different values before every build and every epoch']
    return res


def replay(data):
    r = data['replay']
    res = common.Result()
    if r.get('engine') == 'copy-vars':
        check_copies(res)
        res.coverage.update(states=1, transitions=1)
        return res
    if r.get('engine') == 'differential-proc':
        st, viols = check_process_backends((tuple(r['prog']), r.get('seed', 0), r.get('kind', 'rs')))
    else:
        st, viols = check_program((tuple(r['prog']), [r.get('seed', 0)], [r.get('kind', 'rs')]))
    res.violations = [common.Violation.from_json(v) for v in viols]
    res.coverage.update(states=max(1, st['states']), transitions=st['transitions'])
    return res
