"""C03: keys, items and key lookup are aligned with iteration order (E1), plus items() over the unordered stages
(per-epoch reshuffle, buffer-local shuffle, frozen copies used by catch) for ALL rng answers and all
interleavings of two iterators (shared machinery with C12)."""
import collections

from vf import common
from vf.checks import _e1, c12


def run(tier):
    res = _e1.run('C03', {'keys'}, tier)
    total = collections.Counter()
    js = c12.alignment_jobs(tier)
    for st, viols in common.pmap(c12._task, js):
        total.update(st)
        res.violations.extend(common.Violation.from_json(v) for v in viols)
    res.coverage['states'] += total['states']
    res.coverage['transitions'] += total['transitions']
    res.coverage['traces_validated_against_impl'] += total['states']
    res.coverage['unordered_stage_scenarios'] = len(js)
    return res


def replay(data):
    if data['replay'].get('engine') == 'choicemc':
        r = data['replay']
        res = common.Result()
        st, viols = c12._task((r['scenario'], tuple(r['params']), 'C03'))
        res.violations = [common.Violation.from_json(v) for v in viols]
        res.coverage.update(states=st['states'], transitions=st['transitions'])
        return res
    return _e1.replay('C03', {'keys'}, data)
