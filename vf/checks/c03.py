"""C03: keys, items and key lookup are aligned with iteration order (E1), plus items() over the unordered stages
(per-epoch reshuffle, buffer-local shuffle, frozen copies used by catch) for ALL rng answers and all
interleavings of two iterators (shared machinery with C12)."""
import collections

from vf import common
from vf.checks import _e1, c12


def run(tier):
    res = _e1.run('C03', {'keys'}, tier)
    total = collections.Counter()
    js = c12.alignment_jobs(tier)
    for st, viols in common.pmap(c12._task, js):
        total.update(st)
        res.violations.extend(common.Violation.from_json(v) for v in viols)
    res.coverage['states'] += total['states']
    res.coverage['transitions'] += total['transitions']
    res.coverage['traces_validated_against_impl'] += total['states']
    res.coverage['unordered_stage_scenarios'] = len(js)
    # items() of a per-epoch reshuffle behind prefetch / parallel map (every backend model, all schedules): every pair
    # is the pair the plain, equally seeded pipeline yields, or items() is refused loudly
    from vf.checks import _e2, c04
    _e2.run_matrix('C03', 'oracle_values', [(c, 'D', None) for c in c04.random_stage(tier, modes=('items',))], res,
                   'items() over reshuffle behind prefetch / parallel map, three epochs; mode D')
    res.coverage['traces_validated_against_impl'] += res.coverage.get('executions', 0)
    return res


def replay(data):
    if data['replay'].get('engine') == 'choicemc':
        r = data['replay']
        res = common.Result()
        st, viols = c12._task((r['scenario'], tuple(r['params']), 'C03'))
        res.violations = [common.Violation.from_json(v) for v in viols]
        res.coverage.update(states=st['states'], transitions=st['transitions'])
        return res
    if data['replay'].get('engine') == 'schedmc':
        from vf.checks import _e2
        return _e2.replay('C03', data)
    return _e1.replay('C03', {'keys'}, data)
