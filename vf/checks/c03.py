from vf.checks import _e1


def run(tier):
    return _e1.run('C03', {'keys'}, tier)


def replay(data):
    return _e1.replay('C03', {'keys'}, data)
