"""C01: iterating a pipeline equals the eager reference semantics, repeatably (E1), plus the pipelines whose stages
are evaluated concurrently by multi-worker prefetch, explored at source-line granularity under the controlled
scheduler (shared machinery with C04)."""
from vf import sizesweep
from vf.checks import _e1, _e2, c04


def run(tier):
    res = _e1.run('C01', {'iter'}, tier)
    e1_states, e1_trans = res.coverage['states'], res.coverage['transitions']
    comp = [c for c in c04.composed(tier) if c['n'] == 2]
    _e2.run_matrix('C01', 'oracle_values', [(c, 'L', 1) for c in comp], res,
                   'pipeline stages evaluated by 2 prefetch workers: every source line of core.py / parallel_utils.py is a '
                   'scheduling point, preemption bound 1', cap=40000)
    sw = sizesweep.run('C01', tier, res)
    res.coverage['traces_validated_against_impl'] = e1_states + res.coverage.get('executions', 0) + sw['states']
    return res


def replay(data):
    if data['replay'].get('engine') == 'sizesweep':
        return sizesweep.replay('C01', data['replay'])
    if data['replay'].get('engine') == 'schedmc':
        return _e2.replay('C01', data)
    return _e1.replay('C01', {'iter'}, data)
