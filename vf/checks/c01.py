from vf.checks import _e1


def run(tier):
    return _e1.run('C01', {'iter'}, tier)


def replay(data):
    return _e1.replay('C01', {'iter'}, data)
