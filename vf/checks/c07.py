"""C07: read-ahead of prefetch / parallel map is bounded by the buffer size at every moment of every
schedule (pull / start / deliver events of instrumented sources and functions)."""
from vf import common
from vf.checks import _e2


def mk(entry, w, b, n, backend='t'):
    return dict(entry=entry, n=n, w=w, b=b, backend=backend, log_points=['deliver', 'start', 'pull'], pull_tap=True)


def configs(tier):
    """(complete, bounded): configurations explored over all schedules (mode P) and those explored over all
    schedules with a bounded number of preemptions (mode B) because their full space is too large."""
    complete = [mk('prefetch', 1, 1, 4), mk('prefetch', 1, 1, 5), mk('prefetch', 1, 2, 5),
                mk('parmap', 1, 1, 4), mk('parmap', 1, 1, 5), mk('parmap', 1, 2, 5), mk('parmap', 1, 2, 6),
                mk('parmap', 1, 1, 4, 'dill_mp'), mk('parmap', 1, 2, 5, 'dill_mp'),
                mk('prefetch', 2, 2, 4), mk('parmap', 2, 2, 4), mk('prefetch', 2, 2, 3, 'dill_mp'),
                mk('prefetch', 1, 1, 4, 'multiprocessing'), mk('parmap', 1, 2, 5, 'multiprocessing'),
                mk('prefetch', 1, 2, 5, 'concurrent_mp'), mk('parmap', 1, 1, 4, 'concurrent_mp'),
                mk('prefetch', 1, 1, 4, 'mp'), mk('parmap', 1, 2, 5, 'mp')]
    complete += [dict(mk('parmap', 1, 1, 4), copy_first=True), dict(mk('parmap', 2, 2, 5), copy_first=True),
                 dict(mk('prefetch', 1, 1, 4), copy_first=True), dict(mk('prefetch', 2, 2, 4), copy_first=True)]
    bounded = [mk('prefetch', 1, 2, 6), mk('prefetch', 2, 2, 5), mk('prefetch', 2, 2, 6),
               mk('parmap', 2, 2, 5), mk('parmap', 2, 2, 6), mk('prefetch', 2, 2, 5, 'mp')]
    if tier == 'thorough':
        complete += [mk('prefetch', 1, 2, 6), mk('prefetch', 1, 3, 6), mk('parmap', 1, 3, 6), mk('parmap', 1, 3, 7),
                     mk('prefetch', 2, 2, 5), mk('parmap', 2, 2, 5), mk('prefetch', 2, 2, 4, 'mp'),
                     mk('prefetch', 2, 2, 4, 'multiprocessing'), mk('parmap', 2, 2, 4, 'concurrent_mp')]
        bounded += [mk('prefetch', 2, 3, 6), mk('prefetch', 2, 3, 7), mk('parmap', 2, 3, 6), mk('parmap', 2, 3, 7),
                    mk('prefetch', 3, 3, 6), mk('parmap', 3, 3, 6), mk('prefetch', 1, 3, 7)]
    return complete, bounded


def _maxima_task(cfg):
    from vf import schedmc as M
    best = [0, 0]

    def oracle(c, ex):
        mp, ms = _e2.maxima(c, ex)
        best[0], best[1] = max(best[0], mp), max(best[1], ms)
        return []
    M.explore(cfg, oracle, 'B', 1, 5000)
    return cfg, best


def run(tier):
    res = common.Result()
    res.assumptions = list(_e2.ASSUME)
    small, big = configs(tier)
    cfgs = small + big
    _e2.run_matrix('C07', 'oracle_bound', [(c, 'D', None) for c in small], res, 'mode D (DPOR + sleep sets), all schedules', cap=400000)
    bound = 1 if tier == 'quick' else 2
    _e2.run_matrix('C07', 'oracle_bound', [(c, 'B', bound) for c in big], res,
                   f'mode B, all schedules of visible operations with at most {bound} preemptions', cap=150000)
    res.coverage['preemption_bound_completed'] = bound
    # the maxima actually reached must not grow with the dataset length
    reached = {}
    for cfg, best in common.pmap(_maxima_task, [c for c in cfgs if c['backend'] == 't' and not c.get('copy_first')]):
        reached[(cfg['entry'], cfg['w'], cfg['b'], cfg['n'] - cfg['b'])] = best
    table = []
    for (entry, w, b, extra), best in sorted(reached.items()):
        if extra == 3:
            other = reached.get((entry, w, b, 4))
            table.append({'entry': entry, 'w': w, 'b': b, 'max_ahead_n=b+3': best, 'max_ahead_n=b+4': other})
            if other is not None and other != best:
                res.violations.append(common.Violation(
                    'C07', f'read-ahead-grows-with-length/{entry}',
                    f'{entry} w={w} b={b}: maximal (pull, start) read-ahead {best} for n=b+3 but {other} for n=b+4',
                    {'engine': 'schedmc-maxima', 'entry': entry, 'w': w, 'b': b}))
    res.coverage['read_ahead_maxima'] = table
    return _e2.finish(res, 2000)


def replay(data):
    if data['replay'].get('engine') == 'schedmc-maxima':
        return run('quick')
    return _e2.replay('C07', data)
