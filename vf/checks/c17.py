"""C17: dynamic bucket batching conserves examples and honours its limits.

For every parameter setting of a grid, ALL input length sequences over a small alphabet up to a length
bound are fed through the real DynamicBucketDataset generator by an instrumented source; an online
monitor checks the invariants at every emitted batch and at every pull request."""
import collections
import itertools

from vf import common

ALPHABET = [1, 2, 3, 5, 8]
EPS = 1e-9


def grid(tier):
    bs = [1, 2, 3, 4]
    rates = [0, .2, .5, .9]
    exps = [None, 1, 2, 3, 5]
    mbs = [None, 1, 2, 3, 5]
    mts = [None, 6, 10]
    out = []
    for b, r, e, m, t in itertools.product(bs, rates, exps, mbs, mts):
        if tier == 'quick' and not ((e is None or e in (1, 3)) and (m is None or m in (1, 3)) and r in (0, .5, .9)
                                    and (b in (1, 2, 3) or (b == 4 and t is None and m in (None, 3) and e in (None, 3)))):
            continue
        for sort_key in (False, True):
            if sort_key and not (b == 3 and r == .5):
                continue
            out.append(dict(batch_size=b, rate=r, expiration=e, max_buffered=m, max_total_size=t, sort_key=sort_key))
    return out


class Source:
    """Not a Dataset on purpose: DynamicBucketDataset only iterates its input."""

    def __init__(self, lengths, mon):
        self.lengths, self.mon = lengths, mon

    def __iter__(self):
        for i, ln in enumerate(self.lengths):
            self.mon.on_pull(i)
            yield {'len': ln, 'i': i}


class Monitor:
    def __init__(self, p, lengths):
        self.p, self.lengths = p, lengths
        self.pulled = 0
        self.emitted = 0
        self.out_ids = set()
        self.problems = []

    def on_pull(self, i):
        p = self.p
        # at most max_buffered consumed examples are withheld when the next one is requested
        if p['max_buffered'] is not None and not p.get('drop'):
            held = self.pulled - self.emitted
            if held > p['max_buffered']:
                self.problems.append(('buffered-exceeds-limit', f'{held} examples withheld when example {i} was '
                                                                f'requested (max_buffered_examples={p["max_buffered"]})'))
        self.pulled += 1

    def on_batch(self, batch):
        p = self.p
        lens = [ex['len'] for ex in batch]
        ids = [ex['i'] for ex in batch]
        if not batch:
            self.problems.append(('empty-batch', 'an empty batch was emitted'))
            return
        if len(batch) > p['batch_size']:
            self.problems.append(('batch-too-large', f'{lens} for batch_size={p["batch_size"]}'))
        if min(lens) < max(lens) * (1 - p['rate']) - EPS * max(lens):
            self.problems.append(('padding-rate-exceeded', f'lengths {lens}, max_padding_rate={p["rate"]}'))
        if p['max_total_size'] is not None and len(batch) > 1 and len(batch) * max(lens) > p['max_total_size']:
            self.problems.append(('max-total-size-exceeded', f'lengths {lens}: {len(batch)}*{max(lens)} > '
                                                             f'{p["max_total_size"]}'))
        if any(i in self.out_ids for i in ids) or len(set(ids)) != len(ids):
            self.problems.append(('example-emitted-twice', f'ids {ids}'))
        if any(i >= self.pulled for i in ids):
            self.problems.append(('example-invented', f'ids {ids}'))
        self.out_ids.update(ids)
        self.emitted += len(batch)
        if p['expiration'] is not None:
            c = min(ids)
            # the bucket was created with example c; it may see at most `expiration` further examples
            if self.pulled - 1 - c > p['expiration']:
                self.problems.append(('bucket-outlives-expiration',
                                      f'batch {ids} created at example {c} still open when example {self.pulled - 1} '
                                      f'had been consumed (expiration={p["expiration"]})'))
        if p['sort_key']:
            if lens != sorted(lens, reverse=True):
                self.problems.append(('batch-not-sorted', f'lengths {lens} with reverse sort_key'))


def complete(batch_lens, p):
    if len(batch_lens) >= p['batch_size']:
        return True
    t = p['max_total_size']
    return t is not None and (len(batch_lens) + 1) * max(batch_lens) > t


def run_one(p, lengths, drop):
    import lazy_dataset.core as core
    pp = dict(p, drop=drop)
    mon = Monitor(pp, lengths)
    ds = core.DynamicBucketDataset(
        Source(lengths, mon), core.DynamicTimeSeriesBucket, expiration=p['expiration'],
        max_buffered_examples=p['max_buffered'], drop_incomplete=drop,
        sort_key=('len' if p['sort_key'] else None), reverse_sort=bool(p['sort_key']),
        batch_size=p['batch_size'], len_key='len', max_padding_rate=p['rate'], max_total_size=p['max_total_size'])
    batches = []
    try:
        for b in ds:
            mon.on_batch(b)
            batches.append([(ex['i'], ex['len']) for ex in b])
    except Exception as e:      # noqa: BLE001
        mon.problems.append((f'iteration-raises/{type(e).__name__}', str(e)[:80]))
    return mon, batches


SPREAD = (1, 4, 16, 64)         # no two of these fit one padding class: many buckets stay open at the same time


def spread_grid(tier):
    """Settings in which only expiration and the buffer limit close buckets."""
    out = []
    for b, e, m in itertools.product((2, 3), (None, 2, 3, 4), (None, 2, 3, 4)):
        if e is None and m is None:
            continue
        out.append(dict(batch_size=b, rate=.2, expiration=e, max_buffered=m, max_total_size=None, sort_key=False))
    return out


def check_setting(args):
    p, max_len = args[:2]
    alphabet = args[2] if len(args) > 2 else ALPHABET
    st = collections.Counter()
    viols = {}
    for n in range(0, max_len + 1):
        for lengths in itertools.product(alphabet, repeat=n):
            st['states'] += 1
            mon, batches = run_one(p, lengths, False)
            probs = list(mon.problems)
            st['transitions'] += len(lengths) + len(batches)
            if not probs:
                flat = sorted(i for b in batches for i, _ in b)
                if flat != list(range(n)):
                    probs.append(('examples-not-conserved', f'emitted ids {flat} for {n} inputs'))
            mon2, batches2 = run_one(p, lengths, True)
            st['transitions'] += len(lengths) + len(batches2)
            probs += [(k + '/drop', d) for k, d in mon2.problems]
            if not probs:
                key = lambda b: sorted(b)       # noqa: E731
                want = [key(b) for b in batches if complete([ln for _, ln in b], p)]
                got = [key(b) for b in batches2]
                if got != want:
                    probs.append(('drop-incomplete-wrong-set', f'with drop_incomplete=True emitted {batches2}; the batches '
                                                               f'that completed are {want}'))
            for k, d in probs:
                if k not in viols:
                    viols[k] = common.Violation('C17', k, f'lengths={list(lengths)} params={p}: {d}',
                                                {'engine': 'sweep', 'lengths': list(lengths), 'params': p}).to_json()
    return st, list(viols.values())


def run(tier):
    res = common.Result()
    max_len = 5 if tier == 'quick' else 6
    settings = grid(tier)
    total = collections.Counter()
    deep_len = 6 if tier == 'quick' else 8
    deep = spread_grid(tier)
    deeper_len = 8 if tier == 'quick' else 10
    for st, viols in common.pmap(check_setting, [(p, max_len) for p in settings] + [(p, deep_len, SPREAD) for p in deep]
                                 + [(p, deeper_len, SPREAD[:3]) for p in deep]):
        total.update(st)
        res.violations.extend(common.Violation.from_json(v) for v in viols)
    res.violations.sort(key=lambda v: (len(v.replay['lengths']), v.key))
    res.coverage.update(
        states=total['states'], transitions=total['transitions'], traces_validated_against_impl=total['states'],
        exhaustive=True, parameter_settings=len(settings),
        rule=f'states = (parameter setting, input length sequence): every sequence over lengths {ALPHABET} of length 0..{max_len} '
             f'for each of {len(settings)} settings (batch_size x padding rate x expiration x max_buffered x max_total_size '
             f'[x sort_key]), each run with drop_incomplete False and True; plus every sequence over the widely spread lengths '
             f'{SPREAD} of length 0..{deep_len} (and over {SPREAD[:3]} of length 0..{deeper_len}) for {len(deep)} settings in which only expiration / the buffer limit close buckets; '
             f'transitions = examples pulled + batches emitted',
        samples=[{'lengths': [2, 2, 3], 'params': settings[len(settings) // 2]},
                 {'lengths': [8, 1, 5, 5], 'params': settings[-1]}])
    res.assumptions = ['invariant oracle only (no re-implementation of the first-fit algorithm); the drop_incomplete=True run is '
                       'compared differentially with the drop_incomplete=False run of the same input']
    return res


def replay(data):
    r = data['replay']
    res = common.Result()
    n = len(r['lengths'])
    p = r['params']
    mon, batches = run_one(p, tuple(r['lengths']), False)
    probs = list(mon.problems)
    flat = sorted(i for b in batches for i, _ in b)
    if not probs and flat != list(range(n)):
        probs.append(('examples-not-conserved', f'emitted ids {flat}'))
    mon2, batches2 = run_one(p, tuple(r['lengths']), True)
    probs += [(k + '/drop', d) for k, d in mon2.problems]
    if not probs:
        want = [sorted(b) for b in batches if complete([ln for _, ln in b], p)]
        if [sorted(b) for b in batches2] != want:
            probs.append(('drop-incomplete-wrong-set', f'{batches2} vs {want}'))
    res.violations = [common.Violation('C17', k, d, r) for k, d in probs]
    res.coverage.update(states=1, transitions=n)
    return res
