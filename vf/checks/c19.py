"""C19: the database layer builds correct, isolated datasets from its source.

All small database descriptions (datasets, aliases, split over 1..3 merged parts in every way, alias
sections present / absent, extra top-level keys) x all request sequences up to a length, for DictDatabase
(both call conventions), JsonDatabase and a pickled JsonDatabase, against a pure-dict reference."""
import collections
import copy
import gc
import itertools
import json
import os
import pickle
import shutil
import tempfile

from vf import common

DATASETS = collections.OrderedDict([
    ('d1', {'a1': {'x': 1}}),
    ('d2', {'b2': {'x': 3, 'y': [1]}, 'b1': {'x': 2}}),
    ('d3', {'a1': {'x': 9}, 'c1': {'x': 4}}),       # shares the example id a1 with d1
])
ALIASES = collections.OrderedDict([
    ('al12', ['d1', 'd2']),
    ('al2', ['d2']),
    ('al13', ['d1', 'd3']),                         # overlapping example ids inside the alias
    ('al21', ['d2', 'd1']),
    ('al123', ['d1', 'd2', 'd3']),                  # first and third member share an example id
    ('al321', ['d3', 'd2', 'd1']),
])


def descriptions(tier):
    """Yields (parts, meta).  parts: list of dicts as the user would write them."""
    maxp = 3
    for nd in range(0, 4):
        names = list(DATASETS)[:nd]
        avail = [a for a, m in ALIASES.items() if all(x in names for x in m)]
        alias_sets = [()] + [(a,) for a in avail] + list(itertools.combinations(avail, 2))
        for als in alias_sets:
            things = [('ds', n) for n in names] + [('al', a) for a in als]
            for P in range(1, maxp + 1):
                if tier == 'quick' and P == 3 and len(things) > 3:
                    continue
                for assign in itertools.product(range(P), repeat=len(things)):
                    if P > 1 and len(set(assign)) < min(P, len(things)) and len(things) >= P:
                        continue        # keep every part in use when that is possible
                    part_has_alias = [any(k == 'al' and p == i for (k, _), p in zip(things, assign)) for i in range(P)]
                    free = [i for i in range(P) if not part_has_alias[i]]
                    for flags in itertools.product((False, True), repeat=len(free)):

                        for extra in (None, 'dict', 'scalar'):
                            if extra is not None and tier == 'quick' and ((P == 1 and nd != 2) or P == 3):
                                continue
                            if extra is not None and P == 3 and len(things) > 3:
                                continue
                            parts = []
                            for i in range(P):
                                d = {'datasets': {}}
                                for (k, n), p in zip(things, assign):
                                    if p == i and k == 'ds':
                                        d['datasets'][n] = copy.deepcopy(DATASETS[n])
                                if part_has_alias[i] or (i in free and flags[free.index(i)]):
                                    d['alias'] = {}
                                    for (k, n), p in zip(things, assign):
                                        if p == i and k == 'al':
                                            d['alias'][n] = list(ALIASES[n])
                                parts.append(d)
                            if extra == 'dict':
                                parts[0]['meta'] = {'version': 1}
                            elif extra == 'scalar':
                                parts[0]['version'] = 3
                            yield parts, {'names': names, 'aliases': list(als), 'P': P, 'extra': extra}
    # descriptions that must be rejected
    yield [{'datasets': {'d1': copy.deepcopy(DATASETS['d1'])}}, {'datasets': {'d1': copy.deepcopy(DATASETS['d1'])}}], \
        {'reject': 'duplicate dataset name across parts'}
    yield [{'datasets': {'d1': copy.deepcopy(DATASETS['d1'])}, 'alias': {'al': ['d1']}},
           {'datasets': {}, 'alias': {'al': ['d1']}}], {'reject': 'duplicate alias name across parts'}
    yield [{'datasets': {'d1': copy.deepcopy(DATASETS['d1'])}, 'alias': {'al': ['d1']}},
           {'datasets': {'al': copy.deepcopy(DATASETS['d2'])}}], {'reject': 'dataset name equals alias name of an earlier part'}
    yield [{'datasets': {'d1': copy.deepcopy(DATASETS['d1'])}},
           {'datasets': {'d2': copy.deepcopy(DATASETS['d2'])}, 'alias': {'d1': ['d2']}}], \
        {'reject': 'alias name equals dataset name of an earlier part'}
    # every way a name can be introduced in part i (as a dataset or as an alias) and reused in part j > i
    for P in (2, 3):
        for i, j in itertools.combinations(range(P), 2):
            for first, second in itertools.product(('ds', 'al'), repeat=2):
                for alias_section_in_first_part in (False, True):
                    parts = [{'datasets': {f'base{q}': {f'e{q}': {'x': q}}}} for q in range(P)]
                    if alias_section_in_first_part:
                        parts[0]['alias'] = {}
                    for where, kind in ((i, first), (j, second)):
                        if kind == 'ds':
                            parts[where]['datasets']['dup'] = {f'dup{where}': {'x': 10 + where}}
                        else:
                            parts[where].setdefault('alias', {})['dup'] = [f'base{where}']
                    yield parts, {'reject': f'name introduced as {first} in part {i} and reused as {second} in part {j} of {P}'}


def reference(parts, name):
    """('ok', [(example_id, example)...]) | ('raise', reason)."""
    datasets, alias = collections.OrderedDict(), collections.OrderedDict()
    for p in parts:
        datasets.update(p['datasets'])
        alias.update(p.get('alias', {}))
    if isinstance(name, list):
        out = []
        for n in name:
            r = reference(parts, n)
            if r[0] != 'ok':
                return r
            out += r[1]
        return 'ok', out
    if name in alias:
        ex = collections.OrderedDict()
        for m in alias[name]:
            if m not in datasets:
                return 'raise', 'alias member unknown'
            if set(ex) & set(datasets[m]):
                return 'raise', 'overlapping example ids inside an alias'
            ex.update(datasets[m])
    elif name in datasets:
        ex = datasets[name]
    else:
        return 'raise', 'unknown name'
    if not ex:
        return 'raise', 'empty dataset'
    return 'ok', [(k, {**v, 'example_id': k, 'dataset': name}) for k, v in ex.items()]


def strip_empty_alias(parts):
    out = copy.deepcopy(parts)
    for p in out:
        if p.get('alias') == {}:
            del p['alias']
    return out


def make_db(backend, parts, tmp):
    from lazy_dataset.database import DictDatabase, JsonDatabase
    if backend == 'dict-args':
        return DictDatabase(*parts)
    if backend == 'dict-list':
        return DictDatabase(list(parts))
    paths = []
    for i, p in enumerate(parts):
        path = os.path.join(tmp, f'part{i}.json')
        with open(path, 'w') as f:
            json.dump(p, f)
        paths.append(path)
    db = JsonDatabase(*paths) if backend != 'json-list' else JsonDatabase(paths)
    if backend == 'json-pickled':
        db = pickle.loads(pickle.dumps(db))
    return db


def check_description(args):
    idx, parts, meta, tier = args
    st = collections.Counter()
    viols = {}
    tmp = tempfile.mkdtemp(prefix='verif_c19_', dir='/var/tmp')

    def bad(key, what, **kw):
        if key not in viols:
            viols[key] = common.Violation('C19', key, f'{meta} {kw}: {what}',
                                          {'engine': 'histmc', 'parts': parts, 'meta': meta, **kw}).to_json()
    try:
        for backend in ('dict-args', 'dict-list', 'json', 'json-pickled'):
            mine = copy.deepcopy(parts)
            snapshot = copy.deepcopy(mine)
            try:
                db = make_db(backend, mine, tmp)
                names_seen = db.dataset_names
            except Exception as e:      # noqa: BLE001
                if 'reject' in meta:
                    st['states'] += 1
                    continue
                shape = 'alias-only-in-later-part' if (len(parts) > 1 and 'alias' not in parts[0]
                                                       and any('alias' in p for p in parts[1:])) else \
                    ('scalar-extra-key' if meta.get('extra') == 'scalar' and len(parts) > 1 else 'other')
                bad(f'build-raises/{type(e).__name__}/{shape}', f'{backend}: {type(e).__name__}: {str(e)[:80]}',
                    backend=backend)
                continue
            if 'reject' in meta:
                bad('invalid-description-accepted', f'{backend}: {meta["reject"]}', backend=backend)
                continue
            all_names = list(meta['names']) + list(meta['aliases'])
            if sorted(names_seen) != sorted(all_names):
                bad('dataset-names', f'{backend}: dataset_names={names_seen}, expected {all_names}', backend=backend)
            requests = all_names + ['nope']
            if len(all_names) >= 2:
                requests.append(all_names[:2])
                requests.append([all_names[-1], all_names[0]])
            seqs = [(r,) for r in requests]
            seqs += [(a, 'gc', b) for a in requests for b in requests
                     if (tier == 'thorough' and len(parts) <= 2) or a == b or isinstance(a, list) or isinstance(b, list)]
            held = {}
            for seq in seqs:
                st['states'] += 1
                held.clear()
                for step in seq:
                    st['transitions'] += 1
                    step_no = st['transitions']
                    if step == 'gc':
                        # keep the first dataset alive in half of the histories: here we drop it
                        held.clear()
                        if tier == 'thorough' and step_no % 50 == 0:
                            gc.collect()
                        continue
                    exp = reference(parts, step)
                    try:
                        ds = db.get_dataset(step)
                        got = list(ds)
                        keys = list(ds.keys()) if not isinstance(step, list) or exp[0] != 'ok' or \
                            len({k for k, _ in exp[1]}) == len(exp[1]) else None
                    except Exception as e:      # noqa: BLE001
                        if exp[0] == 'ok':
                            bad(f'request-raises/{type(e).__name__}', f'{backend}: get_dataset({step!r}): {str(e)[:80]}',
                                backend=backend, request=step)
                        continue
                    if exp[0] != 'ok':
                        bad('invalid-request-accepted', f'{backend}: get_dataset({step!r}) returned {got}; expected a '
                                                        f'rejection ({exp[1]})', backend=backend, request=step)
                        continue
                    want = [v for _, v in exp[1]]
                    if got != want:
                        bad('wrong-examples', f'{backend}: get_dataset({step!r}) = {got}, expected {want}',
                            backend=backend, request=step)
                    if keys is not None and keys != [k for k, _ in exp[1]]:
                        bad('wrong-keys', f'{backend}: keys {keys}', backend=backend, request=step)
                    # repeated requests are served from one shared dataset while it is alive
                    if not isinstance(step, list):
                        again = db.get_dataset(step)
                        if again is not ds:
                            bad('not-shared', f'{backend}: two requests for {step!r} gave two objects while the first '
                                              f'is alive', backend=backend, request=step)
                        held[step] = ds
                    # mutating what we were given must not reach the database
                    for ex in got:
                        ex['x'] = 'mutated'
                        ex['new'] = 1
                    got2 = list(db.get_dataset(step))
                    if got2 != want:
                        bad('examples-not-isolated', f'{backend}: after mutating the yielded examples a new request '
                                                     f'gives {got2}', backend=backend, request=step)
            # a second database object with the same names but other content, alive at the same time
            if all_names and (len(parts) <= 2 or meta.get("extra") is None):
                twin_parts = copy.deepcopy(parts)
                for tp in twin_parts:
                    for dsd in tp['datasets'].values():
                        for exd in dsd.values():
                            exd['x'] = ['twin', exd.get('x')]      # a list: survives the JSON round trip
                try:
                    twin = make_db(backend, copy.deepcopy(twin_parts), tempfile.mkdtemp(prefix='twin_', dir=tmp))
                except Exception:       # noqa: BLE001
                    twin = None
                if twin is not None:
                    for name in all_names:
                        st['transitions'] += 1
                        e1, e2 = reference(parts, name), reference(twin_parts, name)
                        if e1[0] != 'ok':
                            continue
                        try:
                            a = db.get_dataset(name)
                            b = twin.get_dataset(name)
                            la, lb = list(a), list(b)
                        except Exception as e:      # noqa: BLE001
                            bad(f'twin-request-raises/{type(e).__name__}', f'{backend}: {name}: {e}', backend=backend)
                            continue
                        if la != [v for _, v in e1[1]] or lb != [v for _, v in e2[1]]:
                            bad('answer-from-another-database', f'{backend}: two databases with different content asked for '
                                                                f'{name!r}: {la} / {lb}', backend=backend, request=name)
                    del twin
            if backend.startswith('dict'):
                if strip_empty_alias(mine) != strip_empty_alias(snapshot):
                    bad('source-dict-modified', f'{backend}: source dictionaries changed: {mine} (were {snapshot})',
                        backend=backend)
            del db
            held.clear()
            gc.collect()
    finally:
        shutil.rmtree(tmp, ignore_errors=True)
    return st, list(viols.values())


def run(tier):
    res = common.Result()
    descs = [(i, p, m, tier) for i, (p, m) in enumerate(descriptions(tier))]
    total = collections.Counter()
    for st, viols in common.pmap(check_description, descs, chunksize=8):
        total.update(st)
        res.violations.extend(common.Violation.from_json(v) for v in viols)
    res.violations.sort(key=lambda v: (len(json.dumps(v.replay['parts'])), v.key))
    res.coverage.update(
        states=total['states'], transitions=total['transitions'], traces_validated_against_impl=total['states'],
        exhaustive=True, descriptions=len(descs),
        rule='states = (database description, backend, request history); descriptions: 0..3 datasets, 0..2 aliases '
             '(including overlapping example ids), every assignment to 1..{} merged parts, alias sections present/absent, '
             'extra top-level keys; backends DictDatabase(*parts) / DictDatabase([parts]) / JsonDatabase / pickled '
             'JsonDatabase; histories: single requests and request-gc-request chains over names, aliases, lists, unknown '
             'names; transitions = requests'.format(2 if tier == 'quick' else 3),
        samples=[{'parts': d[1], 'meta': d[2]} for d in common.sample(descs, 3)])
    res.assumptions = ['reference: plain dict merge + alias expansion (vf/checks/c19.py: reference)']
    return res


def replay(data):
    r = data['replay']
    res = common.Result()
    st, viols = check_description((0, r['parts'], r['meta'], 'thorough'))
    res.violations = [common.Violation.from_json(v) for v in viols]
    res.coverage.update(states=max(1, st['states']), transitions=st['transitions'])
    return res
