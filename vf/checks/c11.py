"""C11: the disk cache is reused exactly and cleared exactly when asked.

(i)  E3 lifecycle search: all histories of open(reuse, clear) / access / copy / release over ONE directory
     up to a depth, replayed on fresh real objects, against a dict reference;
(ii) all kill points of a writer: a child process that populates the cache is killed (SIGKILL, injected by
     strace) on entry of its K-th write-class system call, for EVERY K; after each kill the parent reopens
     the directory with reuse=True."""
import collections
import gc
import itertools
import os
import shutil
import subprocess
import sys
import tempfile

from vf import common

N = 3
KEYS = ['a', 'b', 'c']
CALLS = collections.Counter()


PAYLOAD = {'big': False}


def value(i):
    v = {'i': i, 'tag': f'value-{i}'}
    if PAYLOAD['big']:
        v['blob'] = chr(65 + i) * 40000       # diskcache keeps values of 32 KiB and more in separate files
    return v


def upstream(i):
    CALLS[i] += 1
    return value(i)


def pipeline():
    import lazy_dataset
    return lazy_dataset.new({k: i for i, k in enumerate(KEYS)}).map(upstream)


def dir_state(d):
    return os.path.isdir(d) and len(os.listdir(d)) > 0


# --------------------------------------------------------------------------------------------------
# (i) lifecycle

def lifecycle_events(handles):
    ev = [('open', r, c) for r in (False, True) for c in (False, True)]
    for h in range(handles):
        ev += [('access', h, i) for i in range(N)] + [('copy', h), ('release', h), ('iter', h)]
    return ev


class LModel:
    def __init__(self):
        self.exists = False         # directory exists and is non-empty
        self.stored = set()
        self.handles = {}           # handle id -> group id
        self.groups = {}            # group id -> {'clear':, 'live':}
        self.next_h = 0
        self.next_g = 0

    def canon(self):
        return (self.exists, frozenset(self.stored),
                tuple(sorted((g['clear'], g['live']) for g in self.groups.values())),
                tuple(sorted((h, self.groups[g]['clear']) for h, g in self.handles.items())))


def run_lifecycle(hist, max_handles=3):
    """Replay on fresh real objects; returns (problem | None, model, pruned).  pruned: the history leaves the
    domain the property speaks about (e.g. a clearing group released while another group uses the directory)."""
    CALLS.clear()
    tmp = tempfile.mkdtemp(prefix='verif_c11_', dir='/var/tmp')
    d = os.path.join(tmp, 'cache')
    real = {}
    m = LModel()
    try:
        for n, ev in enumerate(hist):
            kind = ev[0]
            if kind == 'open':
                _, reuse, clear = ev
                if len(m.handles) >= max_handles or len(m.groups) >= 2:
                    return None, m, True
                if any(g['clear'] for g in m.groups.values()) or (clear and m.groups):
                    return None, m, True        # two groups on one directory where one clears: not specified
                expect_refusal = dir_state(d) and not reuse       # the statement speaks about a NON-EMPTY directory
                refused, err = False, None
                try:
                    ds = pipeline().diskcache(cache_dir=d, reuse=reuse, clear=clear)
                except RuntimeError as e:
                    refused = True
                    if not expect_refusal:
                        err = f'open refused: {e}'
                except Exception as e:      # noqa: BLE001
                    err = f'open raised {type(e).__name__}: {e}'
                if err is not None:
                    return (n, ev, err), m, False
                if refused:
                    # outside the except block, so that the half-built objects of the refused open are released
                    gc.collect()
                    if not dir_state(d):
                        return (n, ev, 'the refused open removed the existing cache directory'), m, False
                    continue
                if expect_refusal:
                    return (n, ev, 'a non-empty cache directory was accepted with reuse=False'), m, False
                h, g = m.next_h, m.next_g
                m.next_h += 1
                m.next_g += 1
                m.handles[h] = g
                m.groups[g] = {'clear': clear, 'live': 1}
                m.exists = True
                real[h] = ds
                del ds
            elif kind in ('access', 'iter'):
                h = ev[1]
                if h not in m.handles:
                    return None, m, True
                idxs = [ev[2]] if kind == 'access' else list(range(N))
                before = {i: CALLS[i] for i in idxs}
                try:
                    got_all = {ev[2]: real[h][ev[2]]} if kind == 'access' else dict(enumerate(real[h]))
                except Exception as e:      # noqa: BLE001
                    return (n, ev, f'access raised {type(e).__name__}: {str(e)[:80]}'), m, False
                if sorted(got_all) != idxs:
                    return (n, ev, f'iteration yielded {len(got_all)} examples'), m, False
                for i in idxs:
                    if got_all[i] != value(i):
                        return (n, ev, f'example {i} read as {got_all[i]}'), m, False
                    if i in m.stored and CALLS[i] != before[i]:
                        return (n, ev, f'example {i} was stored before but upstream ran again'), m, False
                    m.stored.add(i)
            elif kind == 'copy':
                h = ev[1]
                if h not in m.handles or len(m.handles) >= max_handles:
                    return None, m, True
                nh = m.next_h
                m.next_h += 1
                import warnings
                with warnings.catch_warnings():
                    warnings.simplefilter('ignore')
                    real[nh] = real[h].copy()
                m.handles[nh] = m.handles[h]
                m.groups[m.handles[h]]['live'] += 1
            elif kind == 'release':
                h = ev[1]
                if h not in m.handles:
                    return None, m, True
                g = m.handles.pop(h)
                existed = dir_state(d)
                del real[h]
                gc.collect()
                m.groups[g]['live'] -= 1
                if m.groups[g]['live'] == 0:
                    clear = m.groups.pop(g)['clear']
                    if clear:
                        m.exists = False
                        m.stored = set()
                    want = False if clear else existed
                    if dir_state(d) != want and not m.groups:
                        return (n, ev, f'after releasing the last dataset of a clear={clear} cache the directory '
                                       f'{"still exists" if dir_state(d) else "is gone"}'), m, False
                elif not dir_state(d):
                    return (n, ev, 'directory removed although a dataset sharing the cache is alive'), m, False
        return None, m, False
    finally:
        real.clear()
        gc.collect()
        shutil.rmtree(tmp, ignore_errors=True)


def lifecycle_task(args):
    first, depth, big = args
    PAYLOAD['big'] = big
    st = collections.Counter()
    viols = {}
    evs = lifecycle_events(3)
    # depth-first over histories starting with `first`; histories that leave the domain are not extended
    stack = [[first]]
    seen = set()
    while stack:
        hist = stack.pop()
        st['transitions'] += 1
        prob, m, pruned = run_lifecycle(hist)
        if pruned:
            st['outside_domain'] += 1
            continue
        seen.add(m.canon())
        if prob is not None:
            n, ev, what = prob
            key = f'lifecycle/{ev[0]}/' + what.split(':')[0].split(' raised')[0][:60].replace(' ', '-')
            if key not in viols:
                viols[key] = common.Violation('C11', key + ('/large-examples' if big else ''), f'history {hist}: {what}',
                                              {'engine': 'histmc', 'history': [list(e) for e in hist], 'big': big}).to_json()
            continue
        st['states'] += 1
        if len(hist) < depth:
            for ev in evs:
                # skip events that cannot apply (unknown handle) early
                if ev[0] != 'open' and ev[1] not in m.handles:
                    continue
                stack.append(hist + [ev])
    return st, list(viols.values()), len(seen)


# --------------------------------------------------------------------------------------------------
# (ii) kill points

CHILD = r'''
import os, sys
sys.path.insert(0, {repo!r})
os.environ['OMP_NUM_THREADS'] = '1'; os.environ['MKL_NUM_THREADS'] = '1'
import lazy_dataset
def up(i):
    return {{'i': i, 'by': 'child', 'blob': 'x' * 50}}
ds = lazy_dataset.new({{'a': 0, 'b': 1, 'c': 2}}).map(up).diskcache(cache_dir={d!r}, reuse=True, clear=False)
ack = os.open({ack!r}, os.O_WRONLY | os.O_CREAT | os.O_APPEND)
for i in {order!r}:
    v = ds[i]
    os.write(ack, (str(i) + '\n').encode())
os.write(ack, b'done\n')
'''

INJECT = 'pwrite64,pwritev,fdatasync,fsync,ftruncate,rename,unlink'


def run_child(tmp, order, k):
    d = os.path.join(tmp, 'cache')
    ack = os.path.join(tmp, 'ack')
    script = os.path.join(tmp, 'child.py')
    with open(script, 'w') as f:
        f.write(CHILD.format(repo=common.REPO, d=d, ack=ack, order=order))
    cmd = ['strace', '-f', '-qq', '-o', os.path.join(tmp, 'trace'), '-e', f'trace={INJECT}']
    if k is not None:
        cmd += ['-e', f'inject={INJECT}:signal=SIGKILL:when={k}']
    cmd += ['/venv/bin/python', '-B', script]
    r = subprocess.run(cmd, capture_output=True, text=True, timeout=120)
    acked = []
    if os.path.exists(ack):
        acked = open(ack).read().split()
    ntrace = 0
    if os.path.exists(os.path.join(tmp, 'trace')):
        ntrace = sum(1 for line in open(os.path.join(tmp, 'trace')) if '(' in line)
    return d, acked, ntrace, r


def kill_task(args):
    order, k = args
    tmp = tempfile.mkdtemp(prefix='verif_c11k_', dir='/var/tmp')
    try:
        d, acked, ntrace, r = run_child(tmp, order, k)
        if k is None:
            return order, k, ntrace, None, acked
        killed = r.returncode != 0 or 'done' not in acked
        import lazy_dataset
        calls = collections.Counter()

        def up(i):
            calls[i] += 1
            return {'i': i, 'by': 'parent', 'blob': 'x' * 50}
        prob = None
        from vf import observe
        try:
          with observe.deadline(60):       # a reader that never returns (e.g. waits for something the dead writer held)
            ds = lazy_dataset.new({'a': 0, 'b': 1, 'c': 2}).map(up).diskcache(cache_dir=d, reuse=True, clear=True)
            for i in range(N):
                v = ds[i]
                ok_child = v == {'i': i, 'by': 'child', 'blob': 'x' * 50}
                ok_parent = v == {'i': i, 'by': 'parent', 'blob': 'x' * 50}
                if not (ok_child or ok_parent):
                    prob = ('corrupt-or-misplaced-example', f'example {i} read as {v} after a kill at call {k}')
                    break
                if str(i) in acked and not ok_child:
                    prob = ('acknowledged-store-lost', f'example {i} was stored (acknowledged) before the kill at call '
                                                       f'{k} but was recomputed')
                    break
            del ds
            gc.collect()
        except observe.Timeout:
            prob = ('reopened-cache-hangs', f'after a kill at call {k} reading the reopened cache did not return within 60 s')
        except Exception as e:      # noqa: BLE001
            prob = (f'reopen-raises/{type(e).__name__}', f'after a kill at call {k}: {str(e)[:100]}')
        return order, k, ntrace, prob, acked + ([] if killed else ['(not killed)'])
    finally:
        shutil.rmtree(tmp, ignore_errors=True)


def run(tier):
    res = common.Result()
    depth = 4 if tier == 'quick' else 5
    firsts = [('open', r, c) for r in (False, True) for c in (False, True)]
    total = collections.Counter()
    canon = 0
    for st, viols, nseen in common.pmap(lifecycle_task, [(f, depth, False) for f in firsts] +
                                        [(f, depth - 1, True) for f in firsts]):
        total.update(st)
        canon += nseen
        res.violations.extend(common.Violation.from_json(v) for v in viols)
    # kill points
    orders = [[0, 1, 2]] if tier == 'quick' else [[0, 1, 2], [2, 0]]
    kills = 0
    kill_samples = []
    have_strace = shutil.which('strace') is not None
    if not have_strace:
        res.harness_errors.append('strace not available: kill points cannot be enumerated')
    else:
        tasks = []
        for order in orders:
            _, _, ntrace, _, acked = kill_task((order, None))
            if ntrace < 5 or 'done' not in acked:
                res.harness_errors.append(f'dry run of the writer saw {ntrace} write-class calls, acked {acked}')
                continue
            tasks += [(order, k) for k in range(1, ntrace + 1)]
            res.coverage.setdefault('write_class_calls_of_writer', []).append({'order': order, 'calls': ntrace})
        for order, k, ntrace, prob, acked in common.pmap(kill_task, tasks):
            kills += 1
            if k in (1, 5, 17):
                kill_samples.append({'kill_at_call': k, 'order': order, 'acknowledged_before_kill': acked})
            if prob is not None:
                res.violations.append(common.Violation('C11', f'kill/{prob[0]}', f'order {order}: {prob[1]}',
                                                       {'engine': 'killpoints', 'order': order, 'k': k}))
    res.violations.sort(key=lambda v: (len(v.replay.get('history', [])), v.key))
    res.coverage.update(
        states=total['states'] + kills, transitions=total['transitions'] + kills,
        traces_validated_against_impl=total['transitions'] + kills, exhaustive=True,
        lifecycle_histories=total['transitions'], lifecycle_outside_domain=total['outside_domain'],
        distinct_reference_states=canon, kill_points=kills,
        rule=f'lifecycle: every history of length <= {depth} over open(reuse, clear) x4 / access(h,i) / iter(h) / copy(h) / '
             f'release(h) with <= 3 live handles in <= 2 sharing groups on one directory, each replayed on fresh real '
             f'objects; kill points: the writer child is killed on entry of its K-th call of {{{INJECT}}} for every K',
        samples=[{'history': [['open', True, True], ['access', 0, 1], ['copy', 0], ['release', 0], ['access', 1, 1]]}]
        + kill_samples[:3])
    res.assumptions = ['after SIGKILL the file state is a prefix of the system-call history (no torn writes / power loss)',
                       'crash safety below the key mapping is diskcache/SQLite\'s; lazy_dataset\'s part is the index->entry '
                       'mapping and the reuse / clear logic',
                       'two independent opens of one directory where one of them clears are outside the statement and pruned']
    if total['states'] < 100:
        res.harness_errors.append('non-vacuity floor: fewer than 100 lifecycle states')
    return res


def replay(data):
    r = data['replay']
    res = common.Result()
    if r['engine'] == 'histmc':
        hist = [tuple(e) for e in r['history']]
        PAYLOAD['big'] = bool(r.get('big'))
        prob, m, pruned = run_lifecycle(hist)
        if prob is not None:
            n, ev, what = prob
            key = f'lifecycle/{ev[0]}/' + what.split(':')[0].split(' raised')[0][:60].replace(' ', '-')
            res.violations.append(common.Violation('C11', key, what, r))
        res.coverage.update(states=1, transitions=len(hist))
    else:
        order, k, ntrace, prob, acked = kill_task((r['order'], r['k']))
        if prob is not None:
            res.violations.append(common.Violation('C11', f'kill/{prob[0]}', prob[1], r))
        res.coverage.update(states=1, transitions=1)
    return res
