"""C12: every shuffle is a permutation, for every iterator in flight.

(i)  all answers of the random source (choice-driven rng) for reshuffle, buffer-local shuffle and the
     one-time shuffle over small sizes;
(ii) all interleavings of the next() calls of 2-3 iterators over ONE dataset object x all rng answers,
     plus the self-zip / self-intersperse compositions that create such interleavings internally;
(iii) seeded numpy generators over a complete seed range for tile(shuffle=True), random_choice and the
     one-time shuffle."""
import collections
import itertools

import numpy as np

from vf import choicemc as CM
from vf import common


def src(n, keyed=True):
    import lazy_dataset
    if keyed:
        return lazy_dataset.new({f'k{i}': i for i in range(n)})
    return lazy_dataset.new(list(range(n)))


def _fragment(x):
    return [x] if x % 2 else [x, x + 1000]


def _first(x):
    return x


def _true(x):
    return True


def multiset_ok(out, n):
    return sorted(out) == list(range(n))


def interleavings(counts):
    """All sequences over iterator ids in which iterator i appears counts[i] times."""
    ids = [i for i, c in enumerate(counts) for _ in range(c)]
    return sorted(set(itertools.permutations(ids)))


def scenario_single(kind, n, bs, epochs):
    """One dataset object iterated `epochs` times in sequence."""
    def body(ch):
        rng = CM.ChoiceRng(ch)
        ds = src(n)
        if kind == 'reshuffle':
            ds = ds.shuffle(True, rng=rng)
        elif kind == 'local':
            ds = ds.shuffle(True, rng=rng, buffer_size=bs)
        elif kind in ('local-after-unbatch2', 'local-after-unbatch3'):
            ds = ds.batch(int(kind[-1])).unbatch().shuffle(True, rng=rng, buffer_size=bs)
        elif kind == 'local-after-fragment':
            ds = ds.map(_fragment).unbatch().map(_first).shuffle(True, rng=rng, buffer_size=bs)
        elif kind == 'local-after-filter':
            ds = ds.filter(_true).shuffle(True, rng=rng, buffer_size=bs)
        elif kind == 'onetime':
            ds = ds.shuffle(False, rng=rng)
        elif kind == 'reshuffle-items':
            ds = ds.shuffle(True, rng=rng).items()
        elif kind == 'local-items':
            ds = ds.shuffle(True, rng=rng, buffer_size=bs).items()
        elif kind == 'random-choice':
            return [list(ds.random_choice(bs, replace=False, rng_state=rng))]
        return [list(ds) for _ in range(epochs)]
    return body


def scenario_interleaved(kind, n, bs, order):
    """Several iterators over one dataset object advanced in the given order (then each is exhausted)."""
    def body(ch):
        rng = CM.ChoiceRng(ch)
        ds = src(n)
        if kind == 'reshuffle':
            ds = ds.shuffle(True, rng=rng)
        elif kind == 'local':
            ds = ds.shuffle(True, rng=rng, buffer_size=bs)
        elif kind == 'onetime':
            ds = ds.shuffle(False, rng=rng)
        elif kind == 'reshuffle-catch':
            ds = ds.shuffle(True, rng=rng).catch()
        elif kind == 'reshuffle-items-catch':
            ds = ds.shuffle(True, rng=rng).items().catch()
        elif kind == 'reshuffle-catch-items':
            ds = ds.shuffle(True, rng=rng).catch().items()
        k = max(order) + 1
        its = [None] * k
        outs = [[] for _ in range(k)]
        for i in order:
            if its[i] is None:
                its[i] = iter(ds)
            try:
                outs[i].append(next(its[i]))
            except StopIteration:
                pass
        for i in range(k):
            if its[i] is not None:
                outs[i].extend(its[i])
        return outs
    return body


def scenario_composed(kind, n, comp):
    def body(ch):
        rng = CM.ChoiceRng(ch)
        ds = src(n)
        ds = ds.shuffle(True, rng=rng) if kind == 'reshuffle' else ds.shuffle(True, rng=rng, buffer_size=2)
        if comp == 'zip':
            rows = list(ds.zip(ds))
            return [[r[0] for r in rows], [r[1] for r in rows]]
        if comp == 'intersperse':
            out = list(ds.intersperse(ds))
            return [out]        # a multiset check over both copies: every example exactly twice
        if comp == 'concatenate':
            out = list(ds.concatenate(ds))
            return [out[:n], out[n:]]
        raise ValueError(comp)
    return body


def _task(args):
    name, params = args[:2]
    prop = args[2] if len(args) > 2 else 'C12'
    st = collections.Counter()
    viols = {}

    def bad(key, what, replay):
        if prop == 'C03' and not key.startswith('items-misaligned'):
            return          # C03 only judges key / example alignment; permutation-ness is C12's business
        if key not in viols:
            viols[key] = common.Violation(prop, key, what, dict(replay, engine='choicemc', scenario=name,
                                                                 params=params)).to_json()

    if name == 'single':
        kind, n, bs, epochs = params
        for choices, outs in CM.explore(scenario_single(kind, n, bs, epochs), cap=2_000_000):
            st['states'] += 1
            st['transitions'] += sum(len(o) for o in outs)
            for e, out in enumerate(outs):
                vals = out
                if kind.endswith('items'):
                    if any(k != f'k{v}' for k, v in out):
                        bad(f'items-misaligned/{kind}', f'n={n} buffer={bs} rng answers {choices}: items() gave {out}',
                            {'choices': choices})
                    vals = [v for _, v in out]
                if kind == 'random-choice':         # bs = sample size
                    if len(out) != bs or len(set(out)) != len(out) or not set(out) <= set(range(n)):
                        bad('sampling-repeats', f'n={n} size={bs} rng answers {choices}: {out}', {'choices': choices})
                    continue
                src_order = list(range(n))
                if kind == 'local-after-fragment':
                    src_order = [y for x in range(n) for y in _fragment(x)]
                if sorted(vals) != sorted(src_order):
                    bad(f'not-a-permutation/{kind}', f'n={n} buffer={bs} epoch {e} rng answers {choices}: {out}',
                        {'choices': choices})
                elif kind.startswith('local'):
                    pos = {v: i for i, v in enumerate(src_order)}
                    for j, v in enumerate(vals):
                        s = pos[v]
                        if s - j > bs - 1:
                            bad(f'displacement-exceeds-buffer/{kind}',
                                f'n={n} buffer_size={bs} rng answers {choices}: example {s} emitted at position {j} ({out})',
                                {'choices': choices})
    elif name == 'interleaved':
        kind, n, bs, counts = params
        for order in interleavings(counts):
            for choices, outs in CM.explore(scenario_interleaved(kind, n, bs, order), cap=2_000_000):
                st['states'] += 1
                st['transitions'] += len(order)
                for i, out in enumerate(outs):
                    if 'items' in kind:
                        if any(kk != f'k{v}' for kk, v in out):
                            bad(f'items-misaligned/{kind}/iterators-in-flight',
                                f'n={n} next() order {list(order)} rng answers {choices}: iterator {i} paired {out}',
                                {'choices': choices, 'order': list(order)})
                        out = [v for _, v in out]
                    if not multiset_ok(out, n):
                        tag = 'iterators-in-flight'
                        bad(f'not-a-permutation/{kind}/{tag}',
                            f'n={n} next() order {list(order)} rng answers {choices}: iterator {i} yielded {out}',
                            {'choices': choices, 'order': list(order)})
    elif name == 'composed':
        kind, n, comp = params
        for choices, outs in CM.explore(scenario_composed(kind, n, comp), cap=2_000_000):
            st['states'] += 1
            st['transitions'] += sum(len(o) for o in outs)
            for out in outs:
                okk = sorted(out) == sorted(list(range(n)) * (len(out) // max(n, 1))) if n else out == []
                if not okk:
                    bad(f'not-a-permutation/{kind}/iterators-in-flight',
                        f'n={n} self-{comp} rng answers {choices}: one side yielded {out}', {'choices': choices})
    elif name == 'seeded-long':
        n, seeds = params
        ds = src(n)
        for s in seeds:
            st['states'] += 1
            for bsz in (1, 2, 3, n // 2, n - 1, n, n + 3):
                for gen in (np.random.RandomState(s), np.random.default_rng(s)):
                    for e, out in enumerate([list(ds.shuffle(True, rng=gen, buffer_size=bsz)) for _ in range(2)]):
                        st['transitions'] += n
                        if not multiset_ok(out, n):
                            missing = sorted(set(range(n)) - set(out))
                            bad('not-a-permutation/local-seeded', f'n={n} buffer={bsz} seed={s} epoch {e}: {len(out)} examples, '
                                                                  f'missing {missing[:5]}', {'seed': s, 'buffer': bsz})
                        elif any(v - j > bsz - 1 for j, v in enumerate(out)):
                            bad('displacement-exceeds-buffer/local-seeded', f'n={n} buffer={bsz} seed={s}', {'seed': s, 'buffer': bsz})
            rs = ds.shuffle(True, rng=np.random.RandomState(s))
            for e in range(2):
                out = list(rs)
                st['transitions'] += n
                if not multiset_ok(out, n):
                    bad('not-a-permutation/reshuffle-seeded', f'n={n} seed={s} epoch {e}', {'seed': s})
            for size in sorted({1, 2, 3, n // 8, max(n // 8 - 1, 0), n // 8 + 1, n // 2, n}):
                for gen in (np.random.RandomState(s), np.random.default_rng(s)):
                    try:
                        out = list(ds.random_choice(size, replace=False, rng_state=gen))
                    except Exception as ex:      # noqa: BLE001
                        bad(f'random-choice-raises/{type(ex).__name__}', f'n={n} size={size} seed={s}: {ex}', {'seed': s})
                        continue
                    st['transitions'] += size
                    if len(out) != size or len(set(out)) != len(out) or not set(out) <= set(range(n)):
                        dup = sorted(v for v, c in collections.Counter(out).items() if c > 1)
                        bad('sampling-repeats', f'n={n} size={size} seed={s}: drawn more than once {dup[:5]}', {'seed': s, 'size': size})
    elif name == 'seeded':
        n, seeds = params
        for s in seeds:
            st['states'] += 1
            ds = src(n, keyed=(s % 2 == 0))
            out = list(ds.shuffle(False, rng=np.random.RandomState(s)))
            st['transitions'] += n
            if not multiset_ok(out, n):
                bad('not-a-permutation/onetime-seeded', f'n={n} seed={s}: {out}', {'seed': s})
            out = list(ds.shuffle(False, rng=np.random.default_rng(s)))
            if not multiset_ok(out, n):
                bad('not-a-permutation/onetime-seeded', f'n={n} default_rng seed={s}: {out}', {'seed': s})
            for reps in (1, 2, 3):
                np.random.seed(s)
                out = list(ds.tile(reps, shuffle=True))
                st['transitions'] += len(out)
                segs = [out[i * n:(i + 1) * n] for i in range(reps)]
                if len(out) != reps * n or not all(multiset_ok(seg, n) for seg in segs):
                    bad('not-a-permutation/tile-shuffle', f'n={n} reps={reps} seed={s}: {out}', {'seed': s, 'reps': reps})
            for size in range(0, n + 1):
                if n == 0:
                    continue
                for gen in (np.random.RandomState(s), np.random.default_rng(s)):
                    try:
                        out = list(ds.random_choice(size, replace=False, rng_state=gen))
                    except Exception as e:      # noqa: BLE001
                        bad(f'random-choice-raises/{type(e).__name__}', f'n={n} size={size} seed={s}: {e}', {'seed': s})
                        continue
                    st['transitions'] += size
                    if len(out) != size or len(set(out)) != len(out) or not set(out) <= set(range(n)):
                        bad('sampling-repeats', f'n={n} size={size} seed={s}: {out}', {'seed': s, 'size': size})
    return st, list(viols.values())


def jobs(tier):
    q = tier == 'quick'
    out = []
    for n in range(0, 8 if q else 10):
        out.append(('single', ('onetime', n, None, 2 if n <= 4 else 1)))
        if n <= 4:
            out.append(('single', ('reshuffle', n, None, 2)))
            out.append(('single', ('reshuffle-items', n, None, 1)))
    for n in range(0, 7 if q else 8):
        for bs in range(1, n + 2):
            for kind in ('local-after-unbatch2', 'local-after-unbatch3', 'local-after-fragment', 'local-after-filter'):
                if kind == 'local-after-fragment' and n > 3:
                    continue
                out.append(('single', (kind, n, bs, 1)))
    for n in range(0, 8 if q else 10):
        for bs in range(1, n + 2):
            out.append(('single', ('local', n, bs, 2 if n <= 3 else 1)))
            if n <= 4:
                out.append(('single', ('local-items', n, bs, 1)))
    # sampling without replacement, every answer of the random source: all (n, size) for small n, and the smallest
    # datasets on which size * 8 <= n (sparse sampling is where an implementation may switch algorithms)
    for n in range(1, 7):
        for size in range(0, n + 1):
            out.append(('single', ('random-choice', n, size, 1)))
    for n, size in ((8, 1), (16, 2), (24, 3), (25, 3)) + (() if q else ((32, 4),)):
        out.append(('single', ('random-choice', n, size, 1)))
    # long inputs with a buffer of one or two: block-wise implementations change behaviour at block boundaries
    for n in (63, 64, 65, 66, 127, 128, 129, 130, 257):
        out.append(('single', ('local', n, 1, 1)))
    for n in (1, 2, 3):
        out.append(('interleaved', ('reshuffle', n, None, (n, n))))
        out.append(('interleaved', ('onetime', n, None, (n, n))))
        for bs in (1, 2, 3):
            if n <= 2 or bs <= 2:
                out.append(('interleaved', ('local', n, bs, (n, n))))
    for n in (2, 3):
        for kind in ('reshuffle-catch', 'reshuffle-items-catch', 'reshuffle-catch-items'):
            out.append(('interleaved', (kind, n, None, (n, n))))
    for n in (1, 2):
        out.append(('interleaved', ('reshuffle', n, None, (n, n, n))))
        out.append(('interleaved', ('local', n, 2, (n, n, n))))
    for n in (1, 2, 3):
        for comp in ('zip', 'intersperse', 'concatenate'):
            out.append(('composed', ('reshuffle', n, comp)))
            if n <= 2:
                out.append(('composed', ('local', n, comp)))
    S = 40 if q else 400
    base = (common.SEED * S) % 100000
    for n in range(0, 8 if q else 10):
        out.append(('seeded', (n, list(range(base, base + S)))))
    for n in (24, 63, 64, 65, 66, 129, 200, 1000):
        out.append(('seeded-long', (n, list(range(base, base + (S if n < 1000 else S // 4))))))
    return out


def alignment_jobs(tier):
    """The scenarios that C03 uses: key / example alignment of items() over unordered stages."""
    return [j + ('C03',) for j in jobs(tier) if 'items' in str(j[1][0])]


def run(tier):
    res = common.Result()
    js = jobs(tier)
    total = collections.Counter()
    for st, viols in common.pmap(_task, js):
        total.update(st)
        res.violations.extend(common.Violation.from_json(v) for v in viols)
    res.coverage.update(
        states=total['states'], transitions=total['transitions'], traces_validated_against_impl=total['states'],
        exhaustive=True, scenarios=len(js),
        rule='states = complete executions: (scenario, every combination of answers of the choice-driven rng [, every '
             'interleaving of next() calls]); transitions = examples yielded; seeded numpy generators over a complete '
             'seed range (rotated by VERIF_SEED)',
        samples=[{'scenario': j[0], 'params': j[1]} for j in common.sample([j for j in js if not j[0].startswith('seeded')], 4)])
    res.assumptions = ['the random source is owned through the public rng= / rng_state= parameters; numpy\'s own generators '
                       'are covered over a finite seed range only']
    return res


def replay(data):
    r = data['replay']
    res = common.Result()
    st, viols = _task((r['scenario'], tuple(r['params']) if not r['scenario'].startswith('seeded') else (r['params'][0], r['params'][1])))
    res.violations = [common.Violation.from_json(v) for v in viols]
    res.coverage.update(states=st['states'], transitions=st['transitions'])
    return res
